import Usid.Model.UnitValues
import Usid.Proofs.Cartesian
import Usid.Proofs.Dims
/-! `get_unit_values` on the index / value rows of a regular grid (C09): list algebra for filters over
    `range (H * P)` and the statement-by-statement evaluation of `unitValuesRow`. -/
namespace Usid.UV
open Usid Usid.Slice

/-- `range (H * P)` is the concatenation of `H` blocks of length `P` -/
theorem range_mul (P : Nat) : ∀ (H : Nat), List.range (H * P) = (List.range H).flatMap (fun t => (List.range P).map (fun j => t * P + j))
  | 0 => by simp
  | H + 1 => by
    rw [Nat.add_mul, Nat.one_mul, List.range_add, range_mul P H, List.range_succ, List.flatMap_append]
    simp

theorem flatMap_congr_mem {β γ : Type} (f g : β → List γ) : ∀ (l : List β), (∀ x ∈ l, f x = g x) → l.flatMap f = l.flatMap g
  | [], _ => rfl
  | x :: xs, h => by
    simp only [List.flatMap_cons, h x (by simp)]
    rw [flatMap_congr_mem f g xs (fun y hy => h y (List.mem_cons_of_mem _ hy))]

/-- filtering `range (H * P)` block by block -/
theorem filter_range_mul (P H : Nat) (p : Nat → Bool) (q : Nat → Nat → Bool)
    (hpq : ∀ t j, t < H → j < P → p (t * P + j) = q t j) :
    (List.range (H * P)).filter p = (List.range H).flatMap (fun t => ((List.range P).filter (q t)).map (fun j => t * P + j)) := by
  rw [range_mul, List.filter_flatMap]
  apply flatMap_congr_mem
  intro t ht
  rw [List.filter_map]
  congr 1
  apply List.filter_congr
  intro j hj
  exact hpq t j (List.mem_range.mp ht) (List.mem_range.mp hj)

theorem filter_lt_range (S P : Nat) (h : S ≤ P) : (List.range P).filter (fun j => decide (j < S)) = List.range S := by
  obtain ⟨d, rfl⟩ := Nat.exists_eq_add_of_le h
  rw [List.range_add, List.filter_append]
  have h1 : (List.range S).filter (fun j => decide (j < S)) = List.range S := by
    rw [List.filter_eq_self]; intro a ha; simpa using List.mem_range.mp ha
  have h2 : ((List.range d).map (fun x => S + x)).filter (fun j => decide (j < S)) = [] := by
    rw [List.filter_eq_nil_iff]; intro a ha
    obtain ⟨x, _, rfl⟩ := List.mem_map.mp ha
    simp
  rw [h1, h2, List.append_nil]

/-- a filter that keeps only `j = 0`, and only in blocks `t ≠ 0` -/
theorem flatMap_block_starts (P : Nat) (hP : 0 < P) : ∀ (H : Nat), 0 < H →
    (List.range H).flatMap (fun t => ((List.range P).filter (fun j => decide (j = 0) && decide (t ≠ 0))).map (fun j => t * P + j)) =
      (List.range (H - 1)).map (fun i => (i + 1) * P)
  | H, hH => by
    have hf : ∀ t, ((List.range P).filter (fun j => decide (j = 0) && decide (t ≠ 0))).map (fun j => t * P + j) =
        if t ≠ 0 then [t * P] else [] := by
      intro t
      obtain ⟨P', rfl⟩ : ∃ P', P = P' + 1 := ⟨P - 1, by omega⟩
      rw [List.range_succ_eq_map, List.filter_cons]
      have : ((List.range P').map Nat.succ).filter (fun j => decide (j = 0) && decide (t ≠ 0)) = [] := by
        rw [List.filter_eq_nil_iff]; intro a ha
        obtain ⟨x, _, rfl⟩ := List.mem_map.mp ha
        simp
      rw [this]
      by_cases ht : t = 0 <;> simp [ht]
    simp only [hf]
    obtain ⟨H', rfl⟩ : ∃ H', H = H' + 1 := ⟨H - 1, by omega⟩
    rw [List.range_succ_eq_map, List.flatMap_cons]
    simp only [ne_eq, not_true_eq_false, if_false, List.nil_append, Nat.add_sub_cancel]
    rw [List.flatMap_map]
    simp [List.map_eq_flatMap]

/-- the index row of a dimension of size `s` whose faster dimensions have `S` points together, repeated
    over `H` tiles -/
def periodicRow (S s H : Nat) : List Nat := (List.range (H * (S * s))).map (fun r => r / S % s)

theorem periodicRow_getD (S s H i : Nat) (hi : i < H * (S * s)) : (periodicRow S s H).getD i 0 = i / S % s := by
  simp [periodicRow, List.getD_eq_getElem?_getD, List.getElem?_range hi]

theorem tile_index (S s t j : Nat) (hS : 0 < S) (hj : j < S * s) : (t * (S * s) + j) / S % s = j / S := by
  have h1 : (t * (S * s) + j) / S = t * s + j / S := by
    rw [Nat.mul_left_comm t S s, Nat.mul_add_div hS]
  have h2 : j / S < s := (Nat.div_lt_iff_lt_mul hS).mpr (by rw [Nat.mul_comm]; exact hj)
  rw [h1, Nat.add_comm, Nat.add_mul_mod_self_right, Nat.mod_eq_of_lt h2]

/-- the positions at which the row is 0: the first `S` positions of every tile -/
theorem starts_eq (S s H : Nat) (hS : 0 < S) (hs : 0 < s) :
    whereEq (periodicRow S s H) 0 = (List.range H).flatMap (fun t => (List.range S).map (fun j => t * (S * s) + j)) := by
  unfold whereEq
  have hlen : (periodicRow S s H).length = H * (S * s) := by simp [periodicRow]
  rw [hlen]
  have hc : (List.range (H * (S * s))).filter (fun i => (periodicRow S s H).getD i 0 == 0) =
      (List.range (H * (S * s))).filter (fun i => i / S % s == 0) := by
    apply List.filter_congr
    intro i hi
    rw [periodicRow_getD S s H i (List.mem_range.mp hi)]
  rw [hc, filter_range_mul (S * s) H _ (fun _ j => decide (j < S))]
  · apply flatMap_congr_mem
    intro t _
    rw [filter_lt_range S (S * s) (Nat.le_mul_of_pos_right S hs)]
  · intro t j _ hj
    rw [tile_index S s t j hS hj]
    by_cases h : j < S
    · simp [h, Nat.div_eq_of_lt h]
    · have : j / S ≠ 0 := by
        intro h0
        rcases Nat.div_eq_zero_iff.mp h0 with h1 | h1 <;> omega
      simp [h, this]

theorem starts_length (S s H : Nat) (hS : 0 < S) (hs : 0 < s) : (whereEq (periodicRow S s H) 0).length = H * S := by
  rw [starts_eq S s H hS hs]
  induction H with
  | zero => simp
  | succ H ih => rw [List.range_succ, List.flatMap_append, List.length_append, ih]; simp [Nat.add_mul]

theorem starts_get (S s H k : Nat) (hS : 0 < S) (hs : 0 < s) (hk : k < H * S) :
    (whereEq (periodicRow S s H) 0)[k]? = some (k / S * (S * s) + k % S) := by
  rw [starts_eq S s H hS hs]
  have hq : k / S < H := (Nat.div_lt_iff_lt_mul hS).mpr hk
  have hr : k % S < S := Nat.mod_lt _ hS
  have e : k = k / S * S + k % S := by rw [Nat.mul_comm]; exact (Nat.div_add_mod k S).symm
  conv => lhs; rw [e]
  rw [flatMap_uniform_get (fun t => (List.range S).map (fun j => t * (S * s) + j)) S (List.range H)
    (fun x _ => by simp) (k / S) (k % S) (by simpa using hq) hr]
  simp [List.getElem?_range hr]

theorem starts_at (S s H t j : Nat) (hS : 0 < S) (hs : 0 < s) (ht : t < H) (hj : j < S) :
    (whereEq (periodicRow S s H) 0)[t * S + j]? = some (t * (S * s) + j) := by
  rw [starts_eq S s H hS hs]
  rw [flatMap_uniform_get (fun t => (List.range S).map (fun j => t * (S * s) + j)) S (List.range H)
    (fun x _ => by simp) t j (by simpa using ht) hj]
  simp [List.getElem?_range hj]

theorem diffNat_cons_cons (a b : Nat) (r : List Nat) : diffNat (a :: b :: r) = (b - a) :: diffNat (b :: r) := by
  simp [diffNat]

theorem diffNat_length : ∀ (l : List Nat), (diffNat l).length = l.length - 1
  | [] => rfl
  | [_] => rfl
  | a :: b :: r => by rw [diffNat_cons_cons, List.length_cons, diffNat_length (b :: r)]; simp

theorem diffNat_get : ∀ (l : List Nat) (k : Nat), k + 1 < l.length → (diffNat l)[k]? = some (l.getD (k + 1) 0 - l.getD k 0)
  | [], _, h => by simp at h
  | [_], _, h => by simp at h
  | a :: b :: r, 0, _ => by rw [diffNat_cons_cons]; simp
  | a :: b :: r, k + 1, h => by
    rw [diffNat_cons_cons, List.getElem?_cons_succ, diffNat_get (b :: r) k (by simpa using h)]
    simp

/-- the step sizes between consecutive zero positions: 1 inside the leading run of a tile, one big jump
    from the end of a run to the start of the next tile -/
theorem step_at (S s H t j : Nat) (hS : 0 < S) (hs : 0 < s) (ht : t < H) (hj : j < S) :
    (1 :: diffNat (whereEq (periodicRow S s H) 0)).getD (t * S + j) 0 =
      if j = 0 then (if t = 0 then 1 else S * s - S + 1) else 1 := by
  have hlen := starts_length S s H hS hs
  cases j with
  | succ j' =>
    have e : t * S + (j' + 1) = (t * S + j') + 1 := by omega
    rw [e, List.getD_cons_succ, List.getD_eq_getElem?_getD,
      diffNat_get _ (t * S + j') (by rw [hlen]; calc t * S + j' + 1 < t * S + S := by omega
        _ = (t + 1) * S := by rw [Nat.add_mul, Nat.one_mul]
        _ ≤ H * S := Nat.mul_le_mul_right _ ht)]
    have h1 := starts_at S s H t (j' + 1) hS hs ht hj
    have h2 := starts_at S s H t j' hS hs ht (by omega)
    rw [e] at h1
    simp only [List.getD_eq_getElem?_getD, h1, h2, Option.getD_some]
    simp only [Nat.succ_ne_zero, if_false]
    omega
  | zero =>
    cases t with
    | zero => simp
    | succ t' =>
      have e : (t' + 1) * S + 0 = (t' * S + (S - 1)) + 1 := by rw [Nat.add_mul, Nat.one_mul]; omega
      have hb : t' * S + (S - 1) + 1 < (whereEq (periodicRow S s H) 0).length := by
        rw [hlen, ← e, Nat.add_zero]
        exact Nat.mul_lt_mul_of_pos_right ht hS
      rw [e, List.getD_cons_succ, List.getD_eq_getElem?_getD, diffNat_get _ (t' * S + (S - 1)) hb]
      have h1 := starts_at S s H (t' + 1) 0 hS hs ht hS
      have h2 := starts_at S s H t' (S - 1) hS hs (by omega) (by omega)
      rw [e] at h1
      simp only [List.getD_eq_getElem?_getD, h1, h2, Option.getD_some]
      simp only [if_true, Nat.succ_ne_zero, if_false, Nat.add_zero]
      have hT : S ≤ S * s := Nat.le_mul_of_pos_right S hs
      rw [Nat.add_mul, Nat.one_mul]
      omega

theorem stepSizes_length (S s H : Nat) (hS : 0 < S) (hs : 0 < s) (hH : 0 < H) :
    (1 :: diffNat (whereEq (periodicRow S s H) 0)).length = H * S := by
  rw [List.length_cons, diffNat_length, starts_length S s H hS hs]
  have : 0 < H * S := Nat.mul_pos hH hS
  omega

/-- positions of the big jumps: the first position of every tile but the first (none when the dimension
    has a single value) -/
theorem tileIdx_eq (S s H : Nat) (hS : 0 < S) (hs : 0 < s) (hH : 0 < H) :
    (List.range (1 :: diffNat (whereEq (periodicRow S s H) 0)).length).filter
        (fun i => decide ((1 :: diffNat (whereEq (periodicRow S s H) 0)).getD i 0 > 1)) =
      if 1 < s then (List.range (H - 1)).map (fun i => (i + 1) * S) else [] := by
  rw [stepSizes_length S s H hS hs hH]
  by_cases h1 : 1 < s
  · simp only [h1, if_true]
    rw [filter_range_mul S H _ (fun t j => decide (j = 0) && decide (t ≠ 0)), flatMap_block_starts S hS H hH]
    intro t j ht hj
    rw [step_at S s H t j hS hs ht hj]
    have hbig : 1 < S * s - S + 1 := by
      have : S * 2 ≤ S * s := Nat.mul_le_mul_left S h1
      omega
    by_cases hj0 : j = 0 <;> by_cases ht0 : t = 0 <;> simp [hj0, ht0, hbig]
  · simp only [h1, if_false]
    rw [List.filter_eq_nil_iff]
    intro k hk
    have hk' := List.mem_range.mp hk
    have hs1 : s = 1 := by omega
    have e : k = k / S * S + k % S := by rw [Nat.mul_comm]; exact (Nat.div_add_mod k S).symm
    rw [e, step_at S s H (k / S) (k % S) hS hs ((Nat.div_lt_iff_lt_mul hS).mpr hk') (Nat.mod_lt _ hS)]
    subst hs1
    by_cases hj0 : k % S = 0 <;> by_cases ht0 : k / S = 0 <;> simp [hj0, ht0]

/-- every step size is 1 or the one big jump, so at most one value other than 1 occurs -/
theorem guard_steps (S s H : Nat) (hS : 0 < S) (hs : 0 < s) (hH : 0 < H) :
    (((1 :: diffNat (whereEq (periodicRow S s H) 0)).eraseDups).filter (· != 1)).length ≤ 1 := by
  have hall : ∀ x ∈ ((1 :: diffNat (whereEq (periodicRow S s H) 0)).eraseDups).filter (· != 1), x = S * s - S + 1 := by
    intro x hx
    have hx' := List.mem_filter.mp hx
    have hmem : x ∈ (1 :: diffNat (whereEq (periodicRow S s H) 0)) := List.mem_eraseDups.mp hx'.1
    obtain ⟨k, hk, rfl⟩ := List.getElem_of_mem hmem
    rw [stepSizes_length S s H hS hs hH] at hk
    have e : k = k / S * S + k % S := by rw [Nat.mul_comm]; exact (Nat.div_add_mod k S).symm
    have := step_at S s H (k / S) (k % S) hS hs ((Nat.div_lt_iff_lt_mul hS).mpr hk) (Nat.mod_lt _ hS)
    rw [← e, List.getD_eq_getElem?_getD, List.getElem?_eq_getElem (by rw [stepSizes_length S s H hS hs hH]; exact hk)] at this
    simp only [Option.getD_some] at this
    have hne : (1 :: diffNat (whereEq (periodicRow S s H) 0))[k] ≠ 1 := by simpa using hx'.2
    rw [this] at hne ⊢
    split at hne
    · split at hne
      · exact absurd rfl hne
      · rename_i h1 h2; simp [h1, h2]
    · exact absurd rfl hne
  have hnd : (((1 :: diffNat (whereEq (periodicRow S s H) 0)).eraseDups).filter (· != 1)).Nodup :=
    (List.filter_sublist).nodup (Usid.Dims.nodup_eraseDups _ _ (Nat.le_refl _))
  match hm : ((1 :: diffNat (whereEq (periodicRow S s H) 0)).eraseDups).filter (· != 1) with
  | [] => simp
  | [_] => simp
  | a :: b :: r =>
    rw [hm] at hall hnd
    have ha := hall a (by simp)
    have hb := hall b (by simp)
    rw [List.nodup_cons] at hnd
    exact absurd (by rw [ha, hb]; simp) hnd.1

/-- a window of a mapped range -/
theorem drop_take_map_range {β : Type} (f : Nat → β) (N a b : Nat) (h : a + b ≤ N) :
    (((List.range N).map f).drop a).take b = (List.range b).map (fun j => f (a + j)) := by
  apply List.ext_getElem?
  intro i
  rw [List.getElem?_take]
  by_cases hi : i < b
  · simp only [hi, if_true]
    rw [List.getElem?_drop, List.getElem?_map, List.getElem?_range (by omega), List.getElem?_map,
      List.getElem?_range hi]
    rfl
  · simp only [hi, if_false]
    rw [List.getElem?_eq_none (by simpa using hi)]

/-- the tile boundaries `0, T, 2T, ..., H T` as computed from the big jumps -/
def tileStartsOf (S s H : Nat) : List Nat :=
  (0 :: ((List.range (H - 1)).map (fun i => (i + 1) * S)).map (fun i => (whereEq (periodicRow S s H) 0).getD i 0)) ++ [H * (S * s)]

theorem tileStartsOf_length (S s H : Nat) (hH : 0 < H) : (tileStartsOf S s H).length = H + 1 := by
  simp [tileStartsOf]; omega

theorem tileStartsOf_getD (S s H i : Nat) (hS : 0 < S) (hs : 0 < s) (hH : 0 < H) (hi : i ≤ H) :
    (tileStartsOf S s H).getD i 0 = i * (S * s) := by
  unfold tileStartsOf
  rw [List.getD_eq_getElem?_getD]
  by_cases h0 : i = 0
  · subst h0; simp
  · by_cases hl : i = H
    · subst hl
      rw [List.getElem?_append_right (by simp; omega)]
      simp
      have : i - (i - 1 + 1) = 0 := by omega
      simp [this]
    · have hi' : i - 1 < H - 1 := by omega
      rw [List.getElem?_append_left (by simp; omega)]
      obtain ⟨i', rfl⟩ : ∃ i', i = i' + 1 := ⟨i - 1, by omega⟩
      simp only [List.getElem?_cons_succ, List.map_map, List.getElem?_map]
      rw [List.getElem?_range (by omega)]
      simp only [Option.map_some, Function.comp_apply, Option.getD_some]
      have := starts_at S s H (i' + 1) 0 hS hs (by omega) hS
      rw [Nat.add_zero] at this
      rw [List.getD_eq_getElem?_getD, this]
      simp

/-- every tile of the row looks the same: position `j` of a tile holds `j / S` -/
theorem tile_window (S s H i : Nat) (hS : 0 < S) (hi : i < H) :
    ((periodicRow S s H).drop (i * (S * s))).take (S * s) = (List.range (S * s)).map (fun j => j / S) := by
  unfold periodicRow
  rw [drop_take_map_range _ _ _ _ (by
    calc i * (S * s) + S * s = (i + 1) * (S * s) := by rw [Nat.add_mul, Nat.one_mul]
      _ ≤ H * (S * s) := Nat.mul_le_mul_right _ hi)]
  apply List.map_congr_left
  intro j hj
  exact tile_index S s i j hS (List.mem_range.mp hj)

/-- positions inside one tile at which the index changes: the multiples of `S` -/
theorem changePositions_tile (S s : Nat) (hS : 0 < S) (hs : 0 < s) :
    changePositions ((List.range (S * s)).map (fun j => j / S)) = (List.range (s - 1)).map (fun i => (i + 1) * S) := by
  unfold changePositions
  have hlen : ((List.range (S * s)).map (fun j => j / S)).length = s * S := by simp [Nat.mul_comm]
  rw [hlen, filter_range_mul S s _ (fun t j => decide (j = 0) && decide (t ≠ 0)), flatMap_block_starts S hS s hs]
  intro t j ht hj
  have hk : t * S + j < S * s := by
    calc t * S + j < t * S + S := by omega
      _ = (t + 1) * S := by rw [Nat.add_mul, Nat.one_mul]
      _ ≤ s * S := Nat.mul_le_mul_right _ ht
      _ = S * s := Nat.mul_comm _ _
  have g1 : ((List.range (S * s)).map (fun j => j / S)).getD (t * S + j) 0 = t := by
    rw [List.getD_eq_getElem?_getD, List.getElem?_map, List.getElem?_range hk]
    simp only [Option.map_some, Option.getD_some]
    rw [Nat.mul_comm t S, Nat.mul_add_div hS, Nat.div_eq_of_lt hj, Nat.add_zero]
  cases j with
  | zero =>
    cases t with
    | zero => simp
    | succ t' =>
      have hk' : (t' + 1) * S + 0 - 1 = t' * S + (S - 1) := by rw [Nat.add_mul, Nat.one_mul]; omega
      have hk2 : t' * S + (S - 1) < S * s := by rw [← hk']; omega
      have g2 : ((List.range (S * s)).map (fun j => j / S)).getD ((t' + 1) * S + 0 - 1) 0 = t' := by
        rw [hk', List.getD_eq_getElem?_getD, List.getElem?_map, List.getElem?_range hk2]
        simp only [Option.map_some, Option.getD_some]
        rw [Nat.mul_comm t' S, Nat.mul_add_div hS, Nat.div_eq_of_lt (by omega), Nat.add_zero]
      rw [g1, g2]
      have hne : ¬ (t' + 1) * S = 0 := Nat.mul_ne_zero (Nat.succ_ne_zero t') (by omega)
      simp [hne]
  | succ j' =>
    have hk' : t * S + (j' + 1) - 1 = t * S + j' := by omega
    have g2 : ((List.range (S * s)).map (fun j => j / S)).getD (t * S + (j' + 1) - 1) 0 = t := by
      rw [hk', List.getD_eq_getElem?_getD, List.getElem?_map, List.getElem?_range (by omega)]
      simp only [Option.map_some, Option.getD_some]
      rw [Nat.mul_comm t S, Nat.mul_add_div hS, Nat.div_eq_of_lt (by omega), Nat.add_zero]
    rw [g1, g2]
    simp

theorem row_min (S s H : Nat) (hS : 0 < S) (hs : 0 < s) (hH : 0 < H) : (periodicRow S s H).min? = some 0 := by
  rw [List.min?_eq_some_iff]
  refine ⟨?_, fun b _ => Nat.zero_le b⟩
  unfold periodicRow
  refine List.mem_map.mpr ⟨0, List.mem_range.mpr (Nat.mul_pos hH (Nat.mul_pos hS hs)), ?_⟩
  simp

theorem starts_head (S s H : Nat) (hS : 0 < S) (hs : 0 < s) (hH : 0 < H) :
    (whereEq (periodicRow S s H) 0).headD 1 = 0 := by
  have := starts_at S s H 0 0 hS hs hH hS
  simp only [Nat.zero_mul, Nat.add_zero] at this
  cases hl : whereEq (periodicRow S s H) 0 with
  | nil => rw [hl] at this; simp at this
  | cons a r => rw [hl] at this; simpa using this

/-- the values read at the first position of every index value: `V` itself -/
theorem values_at_steps (S s H : Nat) (V : List Int) (hS : 0 < S) (hs : 0 < s) (hH : 0 < H) (hV : V.length = s) :
    (0 :: (List.range (s - 1)).map (fun i => (i + 1) * S)).map
        (fun i => ((List.range (H * (S * s))).map (fun r => V.getD (r / S % s) 0)).getD i 0) = V := by
  have e : (0 :: (List.range (s - 1)).map (fun i => (i + 1) * S)) = (List.range s).map (fun i => i * S) := by
    obtain ⟨s', rfl⟩ : ∃ s', s = s' + 1 := ⟨s - 1, by omega⟩
    rw [List.range_succ_eq_map]
    simp [List.map_map, Function.comp_def]
  rw [e, List.map_map]
  apply List.ext_getElem
  · simp [hV]
  · intro i h1 h2
    have hi : i < s := by simpa using h1
    have hlt : i * S < H * (S * s) := by
      calc i * S < s * S := Nat.mul_lt_mul_of_pos_right hi hS
        _ = 1 * (S * s) := by rw [Nat.one_mul, Nat.mul_comm]
        _ ≤ H * (S * s) := Nat.mul_le_mul_right _ hH
    simp only [List.getElem_map, List.getElem_range, Function.comp_apply]
    rw [List.getD_eq_getElem?_getD, List.getElem?_map, List.getElem?_range hlt]
    simp only [Option.map_some, Option.getD_some]
    rw [Nat.mul_div_cancel _ hS, Nat.mod_eq_of_lt hi]
    simp [List.getD_eq_getElem?_getD, List.getElem?_eq_getElem h2]

/-- **`get_unit_values`, one dimension of a regular grid.**  For the index row of a dimension of size `s`
    whose faster dimensions have `S` points together, repeated over `H >= 1` tiles, and the value row
    holding `V[index]`: every guard of the statement-by-statement model passes and the result is `V`. -/
theorem unitValuesRow_periodic (S s H : Nat) (V : List Int) (hS : 0 < S) (hs : 0 < s) (hH : 0 < H) (hV : V.length = s) :
    unitValuesRow (periodicRow S s H) ((List.range (H * (S * s))).map (fun r => V.getD (r / S % s) 0)) = .ok V := by
  unfold unitValuesRow
  have hg2 : ¬ (((1 :: diffNat (whereEq (periodicRow S s H) 0)).eraseDups).filter (· != 1)).length > 1 := by
    have := guard_steps S s H hS hs hH; omega
  have hlen : (periodicRow S s H).length = H * (S * s) := by simp [periodicRow]
  simp only [row_min S s H hS hs hH, starts_head S s H hS hs hH, bne_self_eq_false, Bool.false_eq_true, if_false, hg2,
    tileIdxOf, tileIdx_eq S s H hS hs hH, hlen]
  by_cases hA : 1 < s ∧ 1 < H
  · -- several tiles of a multi-valued dimension
    obtain ⟨h1, h2⟩ := hA
    have hne : ((List.range (H - 1)).map (fun i => (i + 1) * S)).isEmpty = false := by
      cases hh : H - 1 with
      | zero => omega
      | succ k => simp [List.range_succ_eq_map]
    have hts : tileStartsFn (H * (S * s)) (whereEq (periodicRow S s H) 0) ((List.range (H - 1)).map (fun i => (i + 1) * S)) =
        tileStartsOf S s H := by
      unfold tileStartsFn tileStartsOf; simp only [hne, Bool.false_eq_true, if_false]
    simp only [h1, if_true, hts, hne, Bool.not_false, Bool.true_and]
    have hsubs : subsOf (periodicRow S s H) (tileStartsOf S s H) =
        (List.range H).map (fun _ => (List.range (S * s)).map (fun j => j / S)) := by
      unfold subsOf
      rw [tileStartsOf_length S s H hH, Nat.add_sub_cancel]
      apply List.map_congr_left
      intro i hi
      have hi' := List.mem_range.mp hi
      rw [tileStartsOf_getD S s H i hS hs hH (by omega), tileStartsOf_getD S s H (i + 1) hS hs hH (by omega)]
      have : (i + 1) * (S * s) - i * (S * s) = S * s := by rw [Nat.add_mul, Nat.one_mul]; omega
      rw [this]
      exact tile_window S s H i hS hi'
    have hall : ((subsOf (periodicRow S s H) (tileStartsOf S s H)).all
        (fun x => x == (subsOf (periodicRow S s H) (tileStartsOf S s H)).headD [])) = true := by
      rw [hsubs, List.all_eq_true]
      intro x hx
      obtain ⟨i, _, rfl⟩ := List.mem_map.mp hx
      obtain ⟨H', rfl⟩ : ∃ H', H = H' + 1 := ⟨H - 1, by omega⟩
      simp [List.range_succ_eq_map]
    simp only [hall, Bool.not_true, Bool.false_eq_true, if_false]
    rw [tileStartsOf_getD S s H 0 hS hs hH (by omega), tileStartsOf_getD S s H 1 hS hs hH (by omega)]
    have hw := tile_window S s H 0 hS hH
    simp only [Nat.zero_mul, Nat.one_mul, Nat.sub_zero] at hw ⊢
    rw [hw, changePositions_tile S s hS hs, values_at_steps S s H V hS hs hH hV]
  · -- a single tile, or a single-valued dimension: no jump is found
    have hempty : (if 1 < s then (List.range (H - 1)).map (fun i => (i + 1) * S) else []) = [] := by
      by_cases h1 : 1 < s
      · have : H = 1 := by omega
        subst this; simp [h1]
      · simp [h1]
    simp only [hempty, List.isEmpty_nil, Bool.not_true, Bool.false_and, Bool.false_eq_true, if_false, tileStartsFn, if_true,
      List.getD_cons_zero, List.getD_cons_succ, Nat.sub_zero, List.drop_zero]
    have htake : (periodicRow S s H).take (H * (S * s)) = periodicRow S s H := by
      rw [List.take_of_length_le (by rw [hlen]; exact Nat.le_refl _)]
    rw [htake]
    by_cases h1 : 1 < s
    · have hH1 : H = 1 := by omega
      subst hH1
      have hw := tile_window S s 1 0 hS (by omega)
      simp only [Nat.zero_mul, List.drop_zero] at hw
      have hrow : periodicRow S s 1 = (List.range (S * s)).map (fun j => j / S) := by
        rw [← hw, List.take_of_length_le (by rw [hlen]; simp)]
      rw [hrow, changePositions_tile S s hS hs, values_at_steps S s 1 V hS hs (by omega) hV]
    · have hs1 : s = 1 := by omega
      subst hs1
      have hcp : changePositions (periodicRow S 1 H) = [] := by
        unfold changePositions
        rw [List.filter_eq_nil_iff]
        intro j hj
        have hj' : j < H * (S * 1) := by rw [← hlen]; exact List.mem_range.mp hj
        rw [periodicRow_getD S 1 H j hj', periodicRow_getD S 1 H (j - 1) (by omega)]
        simp [Nat.mod_one]
      rw [hcp]
      have := values_at_steps S 1 H V hS (by omega) hH hV
      simpa using this

end Usid.UV

namespace Usid.UV
open Usid Usid.Grid

theorem mapME_of_forall {β γ : Type} (f : β → Except PyErr γ) (g : β → γ) : ∀ (l : List β),
    (∀ x ∈ l, f x = .ok (g x)) → mapME f l = .ok (l.map g)
  | [], _ => rfl
  | x :: xs, h => by
    unfold mapME
    rw [h x (by simp), mapME_of_forall f g xs (fun y hy => h y (List.mem_cons_of_mem _ hy))]
    rfl

/-- the index row of dimension `d` of a regular grid is a periodic row -/
theorem gridRow_periodic (sz : Nat → Nat) (pre post : List Nat) (d : Nat) (hd : d ∉ pre) :
    gridRow sz (pre ++ d :: post) d = periodicRow (pre.map sz).prod (sz d) (post.map sz).prod := by
  unfold gridRow periodicRow gridIdx
  rw [stride_split sz pre post d hd, npoints_split]
  have : (pre.map sz).prod * sz d * (post.map sz).prod = (post.map sz).prod * ((pre.map sz).prod * sz d) := by
    rw [Nat.mul_comm]
  rw [this]

end Usid.UV

namespace Usid.UV
open Usid

/-! ### `unitValuesRow` only looks at the ORDER of the index values, not at the values themselves -/

/-- `f` is strictly increasing on the members of `l` -/
def StrictOn (f : Nat → Nat) (l : List Nat) : Prop := ∀ a ∈ l, ∀ b ∈ l, a < b → f a < f b

theorem StrictOn.inj {f : Nat → Nat} {l : List Nat} (h : StrictOn f l) {a b : Nat} (ha : a ∈ l) (hb : b ∈ l)
    (e : f a = f b) : a = b := by
  rcases Nat.lt_trichotomy a b with h1 | h1 | h1
  · have := h a ha b hb h1; omega
  · exact h1
  · have := h b hb a ha h1; omega

theorem StrictOn.mono {f : Nat → Nat} {l : List Nat} (h : StrictOn f l) {a b : Nat} (ha : a ∈ l) (hb : b ∈ l)
    (e : a ≤ b) : f a ≤ f b := by
  rcases Nat.lt_or_ge a b with h1 | h1
  · exact Nat.le_of_lt (h a ha b hb h1)
  · have : a = b := by omega
    rw [this]; exact Nat.le_refl _

theorem StrictOn.sub {f : Nat → Nat} {l l' : List Nat} (h : StrictOn f l) (hs : ∀ x ∈ l', x ∈ l) : StrictOn f l' :=
  fun a ha b hb hab => h a (hs a ha) b (hs b hb) hab

theorem min_map (f : Nat → Nat) (l : List Nat) (h : StrictOn f l) (m : Nat) (hm : l.min? = some m) :
    (l.map f).min? = some (f m) := by
  rw [List.min?_eq_some_iff] at hm ⊢
  refine ⟨List.mem_map.mpr ⟨m, hm.1, rfl⟩, ?_⟩
  intro b hb
  obtain ⟨a, ha, rfl⟩ := List.mem_map.mp hb
  exact h.mono hm.1 ha (hm.2 a ha)

theorem getD_mem_of_lt (l : List Nat) (i : Nat) (h : i < l.length) : l.getD i 0 ∈ l := by
  rw [List.getD_eq_getElem?_getD, List.getElem?_eq_getElem h]; exact List.getElem_mem h

theorem getD_map_of_lt (f : Nat → Nat) (l : List Nat) (i : Nat) (h : i < l.length) :
    (l.map f).getD i 0 = f (l.getD i 0) := by
  simp [List.getD_eq_getElem?_getD, List.getElem?_eq_getElem h]

theorem whereEq_map (f : Nat → Nat) (l : List Nat) (h : StrictOn f l) (m : Nat) (hm : m ∈ l) :
    whereEq (l.map f) (f m) = whereEq l m := by
  unfold whereEq
  rw [List.length_map]
  apply List.filter_congr
  intro i hi
  have hi' := List.mem_range.mp hi
  rw [getD_map_of_lt f l i hi']
  by_cases e : l.getD i 0 = m
  · rw [e]; simp
  · have : f (l.getD i 0) ≠ f m := fun e' => e (h.inj (getD_mem_of_lt l i hi') hm e')
    rw [beq_eq_false_iff_ne.mpr this, beq_eq_false_iff_ne.mpr e]

theorem changePositions_map (f : Nat → Nat) (l : List Nat) (h : StrictOn f l) :
    changePositions (l.map f) = changePositions l := by
  unfold changePositions
  rw [List.length_map]
  apply List.filter_congr
  intro j hj
  have hj' := List.mem_range.mp hj
  by_cases h0 : j = 0
  · simp [h0]
  · rw [getD_map_of_lt f l j hj', getD_map_of_lt f l (j - 1) (by omega)]
    by_cases e : l.getD j 0 = l.getD (j - 1) 0
    · rw [e]; simp
    · have : f (l.getD j 0) ≠ f (l.getD (j - 1) 0) :=
        fun e' => e (h.inj (getD_mem_of_lt l j hj') (getD_mem_of_lt l (j - 1) (by omega)) e')
      rw [bne_iff_ne.mpr this, bne_iff_ne.mpr e]

/-- equality of two windows of the row is preserved by the relabelling -/
theorem map_beq_map (f : Nat → Nat) (l : List Nat) (h : StrictOn f l) : ∀ (a b : List Nat), (∀ x ∈ a, x ∈ l) → (∀ x ∈ b, x ∈ l) →
    ((a.map f) == (b.map f)) = (a == b)
  | [], [], _, _ => rfl
  | [], _ :: _, _, _ => rfl
  | _ :: _, [], _, _ => rfl
  | x :: xs, y :: ys, ha, hb => by
    have ih := map_beq_map f l h xs ys (fun z hz => ha z (List.mem_cons_of_mem _ hz)) (fun z hz => hb z (List.mem_cons_of_mem _ hz))
    have hx := ha x (by simp)
    have hy := hb y (by simp)
    show ((f x :: xs.map f) == (f y :: ys.map f)) = ((x :: xs) == (y :: ys))
    simp only [List.cons_beq_cons, ih]
    by_cases e : x = y
    · simp [e]
    · have : f x ≠ f y := fun e' => e (h.inj hx hy e')
      rw [beq_eq_false_iff_ne.mpr this, beq_eq_false_iff_ne.mpr e]

theorem subsOf_map (f : Nat → Nat) (l ts : List Nat) : subsOf (l.map f) ts = (subsOf l ts).map (fun s => s.map f) := by
  unfold subsOf
  rw [List.map_map]
  apply List.map_congr_left
  intro i _
  simp [List.map_take, List.map_drop]

/-- **Relabelling invariance.**  Replacing the index values by any strictly increasing relabelling does not
    change what `get_unit_values` computes for the dimension. -/
theorem unitValuesRow_relabel (f : Nat → Nat) (inds : List Nat) (vals : List Int) (h : StrictOn f inds) :
    unitValuesRow (inds.map f) vals = unitValuesRow inds vals := by
  unfold unitValuesRow
  cases hm : inds.min? with
  | none =>
    have : inds = [] := by simpa using hm
    subst this; simp
  | some mn =>
    have hmem : mn ∈ inds := (List.min?_eq_some_iff.mp hm).1
    rw [min_map f inds h mn hm]
    simp only [whereEq_map f inds h mn hmem, List.length_map, subsOf_map]
    -- the guard on the sub-sections
    have hmemsub : ∀ ts, ∀ s ∈ subsOf inds ts, ∀ x ∈ s, x ∈ inds := by
      intro ts s hs x hx
      unfold subsOf at hs
      obtain ⟨i, _, rfl⟩ := List.mem_map.mp hs
      exact List.mem_of_mem_drop (List.mem_of_mem_take hx)
    have hall : ∀ ts, ((subsOf inds ts).map (fun s => s.map f)).all
          (fun s => s == ((subsOf inds ts).map (fun s => s.map f)).headD []) =
        (subsOf inds ts).all (fun s => s == (subsOf inds ts).headD []) := by
      intro ts
      have hm := hmemsub ts
      generalize subsOf inds ts = subs at hm
      cases subs with
      | nil => rfl
      | cons s0 rest =>
        simp only [List.map_cons, List.headD_cons, List.all_cons, List.all_map]
        congr 1
        · exact map_beq_map f inds h s0 s0 (hm s0 (by simp)) (hm s0 (by simp))
        · rw [Bool.eq_iff_iff]
          simp only [List.all_eq_true, Function.comp_apply]
          constructor
          · intro H s hs
            rw [← map_beq_map f inds h s s0 (hm s (List.mem_cons_of_mem _ hs)) (hm s0 (by simp))]
            exact H s hs
          · intro H s hs
            rw [map_beq_map f inds h s s0 (hm s (List.mem_cons_of_mem _ hs)) (hm s0 (by simp))]
            exact H s hs
    have hcp : ∀ a b, changePositions (((inds.map f).drop a).take b) = changePositions ((inds.drop a).take b) := by
      intro a b
      have : ((inds.map f).drop a).take b = ((inds.drop a).take b).map f := by simp [List.map_take, List.map_drop]
      rw [this]
      exact changePositions_map f _ (h.sub (fun x hx => List.mem_of_mem_drop (List.mem_of_mem_take hx)))
    simp only [hall, hcp]

end Usid.UV

namespace Usid.UV
open Usid Usid.Dims

/-- `get_unit_values` on any pair of matrices (one row per dimension) whose index rows are strictly
    increasing relabellings of periodic rows and whose value rows hold `W d` at the row's index. -/
theorem getUnitValues_rows (k : Nat) (S s H : Nat → Nat) (f : Nat → Nat → Nat) (W : Nat → List Int)
    (names : List String) (hn : names.length = k) (hnd : names.Nodup)
    (hpos : ∀ d, d < k → 0 < S d ∧ 0 < s d ∧ 0 < H d ∧ (W d).length = s d ∧ StrictOn (f d) (periodicRow (S d) (s d) (H d)))
    (indsM : List (List Nat)) (valsM : List (List Int))
    (hI : indsM = (List.range k).map (fun d => (periodicRow (S d) (s d) (H d)).map (f d)))
    (hV : valsM = (List.range k).map (fun d => (List.range (H d * (S d * s d))).map (fun r => (W d).getD (r / S d % s d) 0))) :
    mapME (fun nm => unitValuesRow (indsM.getD (names.findIdx (· == nm)) []) (valsM.getD (names.findIdx (· == nm)) [])) names =
      .ok ((List.range k).map W) := by
  have hrows : mapME (fun nm => unitValuesRow (indsM.getD (names.findIdx (· == nm)) []) (valsM.getD (names.findIdx (· == nm)) []))
      names = .ok (names.map (fun nm => W (names.findIdx (· == nm)))) := by
    apply mapME_of_forall
    intro nm hnm
    have hd : names.findIdx (· == nm) < k := by
      rw [← hn]; exact List.findIdx_lt_length_of_exists ⟨nm, hnm, by simp⟩
    generalize names.findIdx (· == nm) = d at hd
    obtain ⟨h1, h2, h3, h4, h5⟩ := hpos d hd
    have e1 : indsM.getD d [] = (periodicRow (S d) (s d) (H d)).map (f d) := by
      rw [hI, List.getD_eq_getElem?_getD, List.getElem?_map, List.getElem?_range hd]; rfl
    have e2 : valsM.getD d [] = (List.range (H d * (S d * s d))).map (fun r => (W d).getD (r / S d % s d) 0) := by
      rw [hV, List.getD_eq_getElem?_getD, List.getElem?_map, List.getElem?_range hd]; rfl
    rw [e1, e2, unitValuesRow_relabel (f d) _ _ h5]
    exact unitValuesRow_periodic (S d) (s d) (H d) (W d) h1 h2 h3 h4
  rw [hrows]
  congr 1
  apply List.ext_getElem
  · simp [hn]
  · intro i h1 h2
    have hi : i < names.length := by simpa using h1
    simp only [List.getElem_map, List.getElem_range]
    have : names.findIdx (· == names[i]) = i := by
      have := hnd.idxOf_getElem i hi
      simpa [List.idxOf] using this
    rw [this]

end Usid.UV
