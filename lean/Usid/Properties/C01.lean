import Usid.Model.Reshape
/-! C01 — N-D form equals the coordinate map defined by the ancillary matrices.
    (Theorems about the wrapper's views; the coordinate-map theorem itself is in progress, see
    `coordinate_map_statement`.) -/
namespace Usid.C01
open Usid Usid.Reshape

variable {α : Type} [Inhabited α]

/-- Toggling twice restores the original view. -/
theorem toggle_involutive (w : Wrapper α) : w.toggle.toggle = w := by
  cases w; simp [Wrapper.toggle]

/-- sort flag after a list of operations: the initial flag xor the parity of the number of toggles -/
def flagAfter (init : Bool) (ops : List Bool) : Bool := ops.foldl (fun f t => if t then !f else f) init

def runOps (w : Wrapper α) (ops : List Bool) : Wrapper α := ops.foldl (fun w t => if t then w.toggle else w) w

/-- After ANY list of toggles interleaved with reads, labels, sizes and the N-D form are those of the
    file-order view when the number of toggles is even and those of the sorted view when odd; nothing else
    of the wrapper changes (reads have no effect on later reads). -/
theorem views_after_ops (w : Wrapper α) (ops : List Bool) :
    runOps w ops = { w with sortFlag := flagAfter w.sortFlag ops } := by
  induction ops generalizing w with
  | nil => cases w; rfl
  | cons t ts ih =>
    simp only [runOps, flagAfter, List.foldl_cons] at ih ⊢
    cases t
    · simpa using ih w
    · have := ih w.toggle
      simp only [Wrapper.toggle] at this ⊢
      simpa using this

/-- Labels, sizes and the N-D form switch together: all three read the same sort flag, and the sorted
    labels / sizes are the file-order ones picked by ONE permutation `s2fOrder` (the same list the sorted
    N-D form was transposed by in `wrapperInit`). -/
theorem one_permutation (w : Wrapper α) :
    (w.sortFlag = false → w.labels = w.origLabels ∧ w.sizes = w.origSizes ∧ w.view = w.orig) ∧
    (w.sortFlag = true → w.labels = pick w.origLabels w.s2fOrder ∧ w.sizes = pick w.origSizes w.s2fOrder ∧
      w.view = w.s2f) := by
  constructor <;> intro h <;> simp [Wrapper.labels, Wrapper.sizes, Wrapper.view, h]

end Usid.C01
