import Usid.Proofs.Reshape
/-! C01 — N-D form equals the coordinate map defined by the ancillary matrices. -/
namespace Usid.C01
open Usid Usid.Reshape Usid.Grid Usid.Dims Usid.C09

variable {α : Type} [Inhabited α]

/-- **The coordinate map (sorted form).**  For every pair of regular grids (any number of dimensions, any
    sizes >= 1, any storage permutation of the change rates, at most as many dimensions as points on a
    side) and every Main matrix over them: `reshape_to_n_dims(sort_dims=True)` succeeds; its labels and
    sizes list the dimensions slowest first (positions, then spectroscopic) in the order found by
    `get_sort_order`, whatever tie-break the sort uses among size-1 dimensions; and the element at the N-D
    index made of the point's indices in that order is `main[r, c]` - for every r, c. -/
theorem coordinate_map_sorted (main : NDArr α) (pS pR sS sR : List Nat) (posInds : List (List Nat))
    (posLabs specLabs : List String)
    (hP : ValidGrid pS pR) (hS : ValidGrid sS sR)
    (hkP : pS.length ≤ npoints (sizeFn pS) pR) (hkS : sS.length ≤ npoints (sizeFn sS) sR)
    (hpos : transposeM posInds = gridMatrix pS pR)
    (hshape : main.shape = [npoints (sizeFn pS) pR, npoints (sizeFn sS) sR])
    (hflat : main.flat.length = npoints (sizeFn pS) pR * npoints (sizeFn sS) sR)
    (hlp : posLabs.length = pS.length) (hls : specLabs.length = sS.length) :
    let ordP := getSortOrder (gridMatrix pS pR)
    let ordS := getSortOrder (gridMatrix sS sR)
    let nd := sortedND main pS pR sS sR
    reshapeToNDims main posInds (gridMatrix sS sR) posLabs specLabs true =
        .ok (nd, (pick posLabs ordP).reverse ++ (pick specLabs ordS).reverse) ∧
      nd.shape = ordP.reverse.map (sizeFn pS) ++ ordS.reverse.map (sizeFn sS) ∧
      ∀ r c, r < npoints (sizeFn pS) pR → c < npoints (sizeFn sS) sR →
        nd.get (coords pS pR r ordP.reverse ++ coords sS sR c ordS.reverse) = main.get [r, c] := by
  intro ordP ordS nd
  have hpermP := (order_is_rate pS pR hP hkP).1
  have hpermS := (order_is_rate sS sR hS hkS).1
  have hdP := dims_along pS pR ordP hP hkP (hpermP.trans hP.1)
  have hdS := dims_along sS sR ordS hS hkS (hpermS.trans hS.1)
  have hprodP : (ordP.map (sizeFn pS)).prod = npoints (sizeFn pS) pR := (hpermP.map _).prod_nat
  have hprodS : (ordS.map (sizeFn sS)).prod = npoints (sizeFn sS) sR := (hpermS.map _).prod_nat
  have hshapeprod : ((ordP.map (sizeFn pS)).reverse ++ (ordS.map (sizeFn sS)).reverse).prod = main.flat.length := by
    rw [List.prod_append, (List.reverse_perm _).prod_nat, (List.reverse_perm _).prod_nat, hprodP, hprodS, hflat]
  have hlabP : ordP.any (fun x => decide (x ≥ posLabs.length)) = false := by
    rw [List.any_eq_false]; intro x hx
    have := List.mem_range.mp ((hpermP.trans hP.1).subset hx)
    simp; omega
  have hlabS : ordS.any (fun x => decide (x ≥ specLabs.length)) = false := by
    rw [List.any_eq_false]; intro x hx
    have := List.mem_range.mp ((hpermS.trans hS.1).subset hx)
    simp; omega
  refine ⟨?_, ?_, ?_⟩
  · unfold reshapeToNDims
    simp only [hpos]
    have hdP' : getDimensionality (gridMatrix pS pR) (some (getSortOrder (gridMatrix pS pR))) = _ := hdP
    have hdS' : getDimensionality (gridMatrix sS sR) (some (getSortOrder (gridMatrix sS sR))) = _ := hdS
    have hlabP' : (getSortOrder (gridMatrix pS pR)).any (fun x => decide (x ≥ posLabs.length)) = false := hlabP
    have hlabS' : (getSortOrder (gridMatrix sS sR)).any (fun x => decide (x ≥ specLabs.length)) = false := hlabS
    rw [hdP', hdS']
    simp only [bind, Except.bind, pure, Except.pure, hshape, List.getD_cons_zero, List.getD_cons_succ, hprodP, hprodS,
      bne_self_eq_false, Bool.false_eq_true, if_false, reshapeND, hshapeprod, hlabP', hlabS', Bool.or_self, if_true]
    rfl
  · simp [nd, sortedND, NDArr.reshape, List.map_reverse]
    rfl
  · intro r c hr hc
    show (sortedND main pS pR sS sR).get _ = _
    unfold sortedND
    rw [reshape_get]
    unfold NDArr.get
    congr 1
    rw [hshape]
    simp only [coords, List.map_reverse]
    rw [ravelC_append _ _ _ _ (by simp <;> rfl)]
    have e1 := ravel_sorted_coords pS pR hP hkP r hr
    have e2 := ravel_sorted_coords sS sR hS hkS c hc
    simp only [List.map_reverse] at e1 e2
    rw [e1, e2, (List.reverse_perm _).prod_nat, hprodS]
    simp [ravelC]

/-- **The coordinate map (file order).**  For every pair of regular grids (any number of dimensions, any
    sizes >= 1, any storage permutation `pR` / `sR` of the change rates, at most as many dimensions as points
    on a side), every Main matrix over them and distinct labels: `reshape_to_n_dims(sort_dims=False)`
    succeeds, returns the labels and sizes in FILE order, and the element at N-D index
    (position indices of row r ++ spectroscopic indices of column c) is `main[r, c]` - for every r, c. -/
theorem coordinate_map (main : NDArr α) (pS pR sS sR : List Nat) (posInds : List (List Nat))
    (posLabs specLabs : List String)
    (hP : ValidGrid pS pR) (hS : ValidGrid sS sR)
    (hkP : pS.length ≤ npoints (sizeFn pS) pR) (hkS : sS.length ≤ npoints (sizeFn sS) sR)
    (hpos : transposeM posInds = gridMatrix pS pR)
    (hshape : main.shape = [npoints (sizeFn pS) pR, npoints (sizeFn sS) sR])
    (hflat : main.flat.length = npoints (sizeFn pS) pR * npoints (sizeFn sS) sR)
    (hlp : posLabs.length = pS.length) (hls : specLabs.length = sS.length) (hnd : (posLabs ++ specLabs).Nodup) :
    ∃ nd, reshapeToNDims main posInds (gridMatrix sS sR) posLabs specLabs false = .ok (nd, posLabs ++ specLabs) ∧
      nd.shape = pS ++ sS ∧ nd.flat.length = (pS ++ sS).prod ∧
      ∀ r c, r < npoints (sizeFn pS) pR → c < npoints (sizeFn sS) sR →
        nd.get (coords pS pR r (List.range pS.length) ++ coords sS sR c (List.range sS.length)) = main.get [r, c] := by
  obtain ⟨h0, hsh0, hget0⟩ := coordinate_map_sorted main pS pR sS sR posInds posLabs specLabs hP hS hkP hkS hpos
    hshape hflat hlp hls
  have hpermP0 := (order_is_rate pS pR hP hkP).1
  have hpermS0 := (order_is_rate sS sR hS hkS).1
  have hpermP := hpermP0.trans hP.1
  have hpermS := hpermS0.trans hS.1
  have hltP : ∀ d ∈ getSortOrder (gridMatrix pS pR), d < pS.length := fun d hd => List.mem_range.mp (hpermP.subset hd)
  have hsig := sigma_perm pS.length sS.length _ _ hpermP hpermS
  -- the sorted array's shape and the sorted labels, in terms of sigma
  have hshσ : (sortedND main pS pR sS sR).shape =
      (sigmaOf pS.length (getSortOrder (gridMatrix pS pR)) (getSortOrder (gridMatrix sS sR))).map
      (fun i => (pS ++ sS).getD i 1) := by
    rw [hsh0, sigma_map pS.length _ _ pS sS 1 rfl hltP]; rfl
  have hlabσ : (pick posLabs (getSortOrder (gridMatrix pS pR))).reverse ++ (pick specLabs (getSortOrder (gridMatrix sS sR))).reverse =
      (sigmaOf pS.length (getSortOrder (gridMatrix pS pR)) (getSortOrder (gridMatrix sS sR))).map
        (fun i => (posLabs ++ specLabs).getD i default) := by
    rw [sigma_map pS.length _ _ posLabs specLabs default hlp hltP]
    simp [pick, List.map_reverse]
  obtain ⟨nd2, ht, hsh2, hlen2, hlab2, hget2⟩ := swap_back (sortedND main pS pR sS sR) (pS.length + sS.length) _ hsig (pS ++ sS)
    (by simp) hshσ (posLabs ++ specLabs) (by simp [hlp, hls]) hnd
  refine ⟨nd2, ?_, hsh2, hlen2, ?_⟩
  · have hdP := dims_along pS pR _ hP hkP hpermP
    have hdS := dims_along sS sR _ hS hkS hpermS
    have hprodP : ((getSortOrder (gridMatrix pS pR)).map (sizeFn pS)).prod = npoints (sizeFn pS) pR := (hpermP0.map _).prod_nat
    have hprodS : ((getSortOrder (gridMatrix sS sR)).map (sizeFn sS)).prod = npoints (sizeFn sS) sR := (hpermS0.map _).prod_nat
    have hshapeprod : (((getSortOrder (gridMatrix pS pR)).map (sizeFn pS)).reverse ++
        ((getSortOrder (gridMatrix sS sR)).map (sizeFn sS)).reverse).prod = main.flat.length := by
      rw [List.prod_append, (List.reverse_perm _).prod_nat, (List.reverse_perm _).prod_nat, hprodP, hprodS, hflat]
    have hlabP : (getSortOrder (gridMatrix pS pR)).any (fun x => decide (x ≥ posLabs.length)) = false := by
      rw [List.any_eq_false]; intro x hx
      have := List.mem_range.mp (hpermP.subset hx)
      simp; omega
    have hlabS : (getSortOrder (gridMatrix sS sR)).any (fun x => decide (x ≥ specLabs.length)) = false := by
      rw [List.any_eq_false]; intro x hx
      have := List.mem_range.mp (hpermS.subset hx)
      simp; omega
    unfold reshapeToNDims
    simp only [hpos]
    rw [hdP, hdS]
    simp only [bind, Except.bind, pure, Except.pure, hshape, List.getD_cons_zero, List.getD_cons_succ, hprodP, hprodS,
      bne_self_eq_false, Bool.false_eq_true, if_false, reshapeND, hshapeprod, hlabP, hlabS, Bool.or_self]
    rw [hlabσ]
    have ht' : transposeND (main.reshape (((getSortOrder (gridMatrix pS pR)).map (sizeFn pS)).reverse ++
        ((getSortOrder (gridMatrix sS sR)).map (sizeFn sS)).reverse)) _ = Except.ok nd2 := ht
    rw [ht']
    simp only [hlab2]
  · intro r c hr hc
    have hb : InBounds (pS ++ sS) (coords pS pR r (List.range pS.length) ++ coords sS sR c (List.range sS.length)) :=
      inBounds_append _ _ _ _ (coords_inBounds pS pR hP r) (coords_inBounds sS sR hS c)
    rw [hget2 _ hb, ← hget0 r c hr hc]
    congr 1
    have := sigma_map pS.length (getSortOrder (gridMatrix pS pR)) (getSortOrder (gridMatrix sS sR))
      (coords pS pR r (List.range pS.length)) (coords sS sR c (List.range sS.length)) 0 (by simp [coords]) hltP
    rw [this]
    simp only [coords]
    congr 1
    · apply List.map_congr_left
      intro d hd
      have hdk := hltP d (List.mem_reverse.mp hd)
      simp [List.getD_eq_getElem?_getD, List.getElem?_map, List.getElem?_range hdk]
    · apply List.map_congr_left
      intro d hd
      have hdk : d < sS.length := List.mem_range.mp (hpermS.subset (List.mem_reverse.mp hd))
      simp [List.getD_eq_getElem?_getD, List.getElem?_map, List.getElem?_range hdk]

/-- **The wrapper's two views.**  A `USIDataset` opened on a regular-grid dataset (either initial flag)
    holds: the file-order labels and sizes; ONE permutation `s2fOrder` = positions slowest to fastest, then
    spectroscopic slowest to fastest; a file-order N-D form that is the coordinate map; and a sorted N-D
    form whose shape is the file-order sizes picked by `s2fOrder` and whose element at the coordinates
    rearranged by the same `s2fOrder` is again `main[r, c]`.  Together with `views_after_ops` and
    `one_permutation` below this is the whole of C01 for the wrapper: after any number of toggles
    interleaved with reads, labels, sizes and N-D form are one of these two consistent triples. -/
theorem wrapper_views (main : NDArr α) (pS pR sS sR : List Nat) (posInds : List (List Nat))
    (posLabs specLabs : List String) (flag : Bool)
    (hP : ValidGrid pS pR) (hS : ValidGrid sS sR)
    (hkP : pS.length ≤ npoints (sizeFn pS) pR) (hkS : sS.length ≤ npoints (sizeFn sS) sR)
    (hpos : transposeM posInds = gridMatrix pS pR)
    (hshape : main.shape = [npoints (sizeFn pS) pR, npoints (sizeFn sS) sR])
    (hflat : main.flat.length = npoints (sizeFn pS) pR * npoints (sizeFn sS) sR)
    (hlp : posLabs.length = pS.length) (hls : specLabs.length = sS.length) (hnd : (posLabs ++ specLabs).Nodup) :
    let sigma := sigmaOf pS.length (getSortOrder (gridMatrix pS pR)) (getSortOrder (gridMatrix sS sR))
    ∃ w ndF ndS, wrapperInit main posInds (gridMatrix sS sR) posLabs specLabs flag = .ok w ∧
      w.sortFlag = flag ∧ w.origLabels = posLabs ++ specLabs ∧ w.origSizes = pS ++ sS ∧ w.s2fOrder = sigma ∧
      w.orig = some ndF ∧ w.s2f = some ndS ∧
      ndF.shape = pS ++ sS ∧ ndS.shape = pick (pS ++ sS) sigma ∧
      ∀ r c, r < npoints (sizeFn pS) pR → c < npoints (sizeFn sS) sR →
        let fileCoords := coords pS pR r (List.range pS.length) ++ coords sS sR c (List.range sS.length)
        ndF.get fileCoords = main.get [r, c] ∧ ndS.get (sigma.map (fun i => fileCoords.getD i 0)) = main.get [r, c] := by
  intro sigma
  obtain ⟨ndF, hF, hshF, _, hgetF⟩ := coordinate_map main pS pR sS sR posInds posLabs specLabs hP hS hkP hkS hpos hshape hflat
    hlp hls hnd
  have hpermP := ((order_is_rate pS pR hP hkP).1).trans hP.1
  have hpermS := ((order_is_rate sS sR hS hkS).1).trans hS.1
  have hsig : sigma.Perm (List.range (pS.length + sS.length)) := sigma_perm pS.length sS.length _ _ hpermP hpermS
  obtain ⟨_, hslen, hslt, hsmem⟩ := perm_facts _ sigma hsig
  have hklen : ndF.shape.length = pS.length + sS.length := by rw [hshF]; simp
  have hordlen : (getSortOrder (gridMatrix pS pR)).length = pS.length := by rw [hpermP.length_eq, List.length_range]
  -- the sorted view
  have htr : transposeND ndF sigma = .ok (ndF.transpose sigma (Usid.Translate.inversePerm (pS.length + sS.length) sigma)) := by
    unfold transposeND
    rw [hklen]
    have c1 : (sigma.length != pS.length + sS.length) = false := by rw [hslen]; simp
    have c2 : (List.range (pS.length + sS.length)).all (fun ax => sigma.contains ax) = true := by
      rw [List.all_eq_true]; intro ax hax
      simpa using hsmem ax (List.mem_range.mp hax)
    simp only [c1, c2, Bool.not_true, Bool.or_self, Bool.false_eq_true, if_false]
    rfl
  refine ⟨⟨flag, posLabs ++ specLabs, pS ++ sS, sigma, some ndF,
      some (ndF.transpose sigma (Usid.Translate.inversePerm (pS.length + sS.length) sigma))⟩, ndF,
    ndF.transpose sigma (Usid.Translate.inversePerm (pS.length + sS.length) sigma), ?_, rfl, rfl, rfl, rfl, rfl, rfl,
    hshF, ?_, ?_⟩
  · unfold wrapperInit
    simp only [hpos, C09.sizes pS pR hP hkP, C09.sizes sS sR hS hkS, bind, Except.bind, pure, Except.pure, hF, hordlen]
    have : transposeND ndF (sigmaOf pS.length (getSortOrder (gridMatrix pS pR)) (getSortOrder (gridMatrix sS sR))) = _ := htr
    unfold sigmaOf at this
    simp only [this, Except.toOption]
    rfl
  · show sigma.map (fun ax => ndF.shape.getD ax 1) = pick (pS ++ sS) sigma
    rw [hshF]
    unfold pick
    apply List.map_congr_left
    intro i hi
    have : i < (pS ++ sS).length := by simpa using hslt i hi
    simp [List.getD_eq_getElem?_getD, List.getElem?_eq_getElem this]
  · intro r c hr hc fileCoords
    refine ⟨hgetF r c hr hc, ?_⟩
    have hb : InBounds ndF.shape fileCoords := by
      rw [hshF]
      exact inBounds_append _ _ _ _ (coords_inBounds pS pR hP r) (coords_inBounds sS sR hS c)
    have hb2 := Usid.Translate.inBounds_map ndF.shape fileCoords hb sigma (fun i hi => by rw [hklen]; exact hslt i hi)
    rw [transpose_get ndF sigma _ _ hb2]
    have hfl : fileCoords.length = pS.length + sS.length := by simp [fileCoords, coords]
    have hg := Usid.Translate.gather_inverse fileCoords sigma (fun i hi => hsmem i (by rw [← hfl]; exact hi))
    rw [hfl] at hg
    rw [hg]
    exact hgetF r c hr hc
/-- Toggling twice restores the original view. -/
theorem toggle_involutive (w : Wrapper α) : w.toggle.toggle = w := by
  cases w; simp [Wrapper.toggle]

/-- sort flag after a list of operations: the initial flag xor the parity of the number of toggles -/
def flagAfter (init : Bool) (ops : List Bool) : Bool := ops.foldl (fun f t => if t then !f else f) init

def runOps (w : Wrapper α) (ops : List Bool) : Wrapper α := ops.foldl (fun w t => if t then w.toggle else w) w

/-- After ANY list of toggles interleaved with reads, labels, sizes and the N-D form are those of the
    file-order view when the number of toggles is even and those of the sorted view when odd; nothing else
    of the wrapper changes (reads have no effect on later reads). -/
theorem views_after_ops (w : Wrapper α) (ops : List Bool) :
    runOps w ops = { w with sortFlag := flagAfter w.sortFlag ops } := by
  induction ops generalizing w with
  | nil => cases w; rfl
  | cons t ts ih =>
    simp only [runOps, flagAfter, List.foldl_cons] at ih ⊢
    cases t
    · simpa using ih w
    · have := ih w.toggle
      simp only [Wrapper.toggle] at this ⊢
      simpa using this

/-- Labels, sizes and the N-D form switch together: all three read the same sort flag, and the sorted
    labels / sizes are the file-order ones picked by ONE permutation `s2fOrder` (the same list the sorted
    N-D form was transposed by in `wrapperInit`). -/
theorem one_permutation (w : Wrapper α) :
    (w.sortFlag = false → w.labels = w.origLabels ∧ w.sizes = w.origSizes ∧ w.view = w.orig) ∧
    (w.sortFlag = true → w.labels = pick w.origLabels w.s2fOrder ∧ w.sizes = pick w.origSizes w.s2fOrder ∧
      w.view = w.s2f) := by
  constructor <;> intro h <;> simp [Wrapper.labels, Wrapper.sizes, Wrapper.view, h]


-- non-vacuity: a 2 x 3 position grid stored with the SECOND dimension fastest, one spectroscopic dimension
example : ValidGrid [2, 3] [1, 0] ∧ ValidGrid [2] [0] ∧ [2, 3].length ≤ npoints (sizeFn [2, 3]) [1, 0] ∧
    gridMatrix [2, 3] [1, 0] = [[0, 0, 0, 1, 1, 1], [0, 1, 2, 0, 1, 2]] ∧
    coords [2, 3] [1, 0] 4 (List.range 2) = [1, 1] := by
  refine ⟨⟨by decide, by decide⟩, ⟨by decide, by decide⟩, by decide, by decide, by decide⟩

end Usid.C01
