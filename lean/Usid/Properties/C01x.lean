import Usid.Proofs.Reshape
namespace Usid.C01
open Usid Usid.Reshape Usid.Grid Usid.Dims Usid.C09

variable {α : Type} [Inhabited α]

/-- coordinates of point `r` of a regular grid along a list of dimensions -/
def coords (sizes rate : List Nat) (r : Nat) (dims : List Nat) : List Nat :=
  dims.map (fun d => gridIdx (sizeFn sizes) rate r d)

theorem coordinate_map_sorted (main : NDArr α) (pS pR sS sR : List Nat) (posInds : List (List Nat))
    (posLabs specLabs : List String)
    (hP : ValidGrid pS pR) (hS : ValidGrid sS sR)
    (hkP : pS.length ≤ npoints (sizeFn pS) pR) (hkS : sS.length ≤ npoints (sizeFn sS) sR)
    (hpos : transposeM posInds = gridMatrix pS pR)
    (hshape : main.shape = [npoints (sizeFn pS) pR, npoints (sizeFn sS) sR])
    (hflat : main.flat.length = npoints (sizeFn pS) pR * npoints (sizeFn sS) sR)
    (hlp : posLabs.length = pS.length) (hls : specLabs.length = sS.length) :
    let ordP := getSortOrder (gridMatrix pS pR)
    let ordS := getSortOrder (gridMatrix sS sR)
    ∃ nd, reshapeToNDims main posInds (gridMatrix sS sR) posLabs specLabs true =
        .ok (nd, (pick posLabs ordP).reverse ++ (pick specLabs ordS).reverse) ∧
      nd.shape = ordP.reverse.map (sizeFn pS) ++ ordS.reverse.map (sizeFn sS) ∧
      ∀ r c, r < npoints (sizeFn pS) pR → c < npoints (sizeFn sS) sR →
        nd.get (coords pS pR r ordP.reverse ++ coords sS sR c ordS.reverse) = main.get [r, c] := by
  intro ordP ordS
  have hpermP := (order_is_rate pS pR hP hkP).1
  have hpermS := (order_is_rate sS sR hS hkS).1
  have hdP := dims_along pS pR ordP hP hkP (hpermP.trans hP.1)
  have hdS := dims_along sS sR ordS hS hkS (hpermS.trans hS.1)
  have hprodP : (ordP.map (sizeFn pS)).prod = npoints (sizeFn pS) pR := (hpermP.map _).prod_nat
  have hprodS : (ordS.map (sizeFn sS)).prod = npoints (sizeFn sS) sR := (hpermS.map _).prod_nat
  have hshapeprod : ((ordP.map (sizeFn pS)).reverse ++ (ordS.map (sizeFn sS)).reverse).prod = main.flat.length := by
    rw [List.prod_append, (List.reverse_perm _).prod_nat, (List.reverse_perm _).prod_nat, hprodP, hprodS, hflat]
  have hlabP : ordP.any (fun x => decide (x ≥ posLabs.length)) = false := by
    rw [List.any_eq_false]; intro x hx
    have := List.mem_range.mp ((hpermP.trans hP.1).subset hx)
    simp; omega
  have hlabS : ordS.any (fun x => decide (x ≥ specLabs.length)) = false := by
    rw [List.any_eq_false]; intro x hx
    have := List.mem_range.mp ((hpermS.trans hS.1).subset hx)
    simp; omega
  refine ⟨main.reshape ((ordP.map (sizeFn pS)).reverse ++ (ordS.map (sizeFn sS)).reverse), ?_, ?_, ?_⟩
  · unfold reshapeToNDims
    simp only [hpos]
    have hdP' : getDimensionality (gridMatrix pS pR) (some (getSortOrder (gridMatrix pS pR))) = _ := hdP
    have hdS' : getDimensionality (gridMatrix sS sR) (some (getSortOrder (gridMatrix sS sR))) = _ := hdS
    have hlabP' : (getSortOrder (gridMatrix pS pR)).any (fun x => decide (x ≥ posLabs.length)) = false := hlabP
    have hlabS' : (getSortOrder (gridMatrix sS sR)).any (fun x => decide (x ≥ specLabs.length)) = false := hlabS
    rw [hdP', hdS']
    simp only [bind, Except.bind, pure, Except.pure, hshape, List.getD_cons_zero, List.getD_cons_succ, hprodP, hprodS,
      bne_self_eq_false, Bool.false_eq_true, if_false, reshapeND, hshapeprod, hlabP', hlabS', Bool.or_self, if_true]
    rfl
  · simp [NDArr.reshape, List.map_reverse]
  · intro r c hr hc
    rw [reshape_get]
    unfold NDArr.get
    congr 1
    rw [hshape]
    simp only [coords, List.map_reverse]
    rw [ravelC_append _ _ _ _ (by simp)]
    have e1 := ravel_sorted_coords pS pR hP hkP r hr
    have e2 := ravel_sorted_coords sS sR hS hkS c hc
    simp only [List.map_reverse] at e1 e2
    rw [e1, e2, (List.reverse_perm _).prod_nat, hprodS]
    simp [ravelC]

end Usid.C01
