import Usid.Model.Main
import Usid.Proofs.Anc
import Usid.Properties.C08
/-! C02 — writing a Main dataset yields a valid, coordinate-faithful structure. -/
namespace Usid.C02
open Usid Usid.Anc Usid.Main Usid.MainCheck

/-- Whenever the writer rejects its arguments — whatever the prior contents of the group, whichever side or
    argument is at fault — the group is left exactly as it was found (so a corrected retry sees the same
    group). -/
theorem reject_atomic (g : Group) (a : Args) (e : PyErr) (h : (writeMain g a).2 = .error e) :
    (writeMain g a).1 = g := by
  unfold writeMain at h ⊢
  cases hv : validateAll g a with
  | error e' => rfl
  | ok u =>
    by_cases hs : a.storageOk = true
    · simp [hv, hs] at h
    · simp [hs]

/-- An ancillary pair offered for reuse whose two matrices do not have the same shape (e.g. Values describing
    another number of dimensions than Indices) is refused on either side, whatever else the arguments are, and -
    by `reject_atomic` - nothing has been created when it is. -/
theorem malformed_reuse_rejected (g : Group) (a : Args)
    (h : (∃ b s, a.pos = .reuseBad b s) ∨ (∃ b s, a.spec = .reuseBad b s)) :
    (∃ e, (writeMain g a).2 = .error e) ∧ (writeMain g a).1 = g := by
  have herr : ∃ e, (writeMain g a).2 = .error e := by
    cases hr : (writeMain g a).2 with
    | error e => exact ⟨e, rfl⟩
    | ok u =>
      exfalso
      unfold writeMain at hr
      cases hv : validateAll g a with
      | error e' => simp [hv] at hr
      | ok u' =>
        unfold validateAll at hv
        simp only [bind, Except.bind, pure, Except.pure, throw, throwThe, MonadExceptOf.throw] at hv
        rcases h with ⟨b, s, hb⟩ | ⟨b, s, hb⟩
        · rw [hb] at hv
          simp only [validateSide] at hv
          split at hv <;> try cases hv
          split at hv <;> try cases hv
          split at hv <;> cases hv
        · rw [hb] at hv
          simp only [validateSide] at hv
          split at hv <;> try cases hv
          split at hv <;> try cases hv
          split at hv <;> try cases hv
          split at hv <;> cases hv
  obtain ⟨e, he⟩ := herr
  exact ⟨⟨e, he⟩, reject_atomic g a e he⟩

theorem validateAll_ok (g : Group) (a : Args) (h : validateAll g a = .ok ()) :
    a.groupOk = true ∧ a.stringsOk = true ∧ validateData a = .ok () ∧
    validateSide g a.pos a.posPrefix a.n = .ok () ∧ validateSide g a.spec a.specPrefix a.m = .ok () ∧
    g.members.contains a.name = false ∧ (newNames a).Nodup := by
  unfold validateAll at h
  simp only [bind, Except.bind, pure, Except.pure, throw, throwThe, MonadExceptOf.throw] at h
  by_cases c1 : a.groupOk = true
  · by_cases c2 : a.stringsOk = true
    · simp only [c1, c2, Bool.not_true, Bool.false_eq_true, if_false] at h
      cases hd : validateData a with
      | error e => simp [hd] at h
      | ok u =>
        cases hp : validateSide g a.pos a.posPrefix a.n with
        | error e => simp [hd, hp] at h
        | ok u2 =>
          cases hs : validateSide g a.spec a.specPrefix a.m with
          | error e => simp [hd, hp, hs] at h
          | ok u3 =>
            simp only [hd, hp, hs] at h
            by_cases c3 : a.name ∈ g.members
            · simp [c3] at h
            · by_cases c4 : (newNames a).Nodup
              · exact ⟨c1, c2, rfl, rfl, rfl, by simpa using c3, c4⟩
              · simp [c3, c4] at h
    · simp [c1, c2] at h
  · simp [c1] at h

/-- every stored ancillary pair is a member of the group -/
def GroupWf (g : Group) : Prop :=
  ∀ p ∈ g.ancs, (p.base ++ "Indices") ∈ g.members

/-- what the creation of one side relies on (all of it is established by the checks, see `sideOk_of_validate`) -/
def SideOk (g : Group) (a : SideArg) (pfx : String) (want : Nat) : Prop :=
  match a with
  | .dims l => npointsOf l = want ∧ ∀ q ∈ g.ancs, q.base ≠ pfx
  | .badType => False
  | .reuseBad _ _ => False
  | .reuse base w npts same => npts = want ∧ w.labels.length = w.units.length ∧
      (same = true → ancOf g base = some ⟨base, w, npts⟩) ∧ (same = false → ∀ q ∈ g.ancs, q.base ≠ base)

theorem writeIndVal_lens (l : List Dim) (s2f : Bool) :
    (writeIndVal l s2f).labels.length = l.length ∧ (writeIndVal l s2f).units.length = l.length := by
  unfold writeIndVal; cases s2f <;> simp

theorem find_append_new (ancs : List AncPair) (p : AncPair) (h : ∀ q ∈ ancs, q.base ≠ p.base) :
    (ancs ++ [p]).find? (fun q => q.base == p.base) = some p := by
  rw [List.find?_append]
  have : ancs.find? (fun q => q.base == p.base) = none := by
    rw [List.find?_eq_none]; intro q hq; simpa using h q hq
  simp [this]

theorem find_append_old (ancs : List AncPair) (p : AncPair) (b : String) (hb : p.base ≠ b) :
    (ancs ++ [p]).find? (fun q => q.base == b) = ancs.find? (fun q => q.base == b) := by
  rw [List.find?_append]
  cases h : ancs.find? (fun q => q.base == b) with
  | some x => simp
  | none => simp [hb]

/-- what `createSide` guarantees about the base it returns -/
theorem createSide_link (g : Group) (a : SideArg) (pfx : String) (s2f : Bool) (want : Nat)
    (hs : SideOk g a pfx want) :
    ∃ p, ancOf (createSide g a pfx s2f).1 (createSide g a pfx s2f).2 = some p ∧ p.npts = want ∧
      p.w.labels.length = p.w.units.length ∧
      (∀ l, a = .dims l → p.w = writeIndVal l s2f) ∧
      (∀ b x, ancOf g b = some x → ancOf (createSide g a pfx s2f).1 b = some x) := by
  cases a with
  | badType => exact hs.elim
  | reuseBad _ _ => exact hs.elim
  | reuse base w npts same =>
    obtain ⟨hn, hl, hsame, hother⟩ := hs
    cases same with
    | true =>
      simp only [createSide, if_true]
      exact ⟨⟨base, w, npts⟩, hsame rfl, hn, hl, (fun l h => by cases h), fun b x hx => hx⟩
    | false =>
      have hnew := hother rfl
      simp only [createSide, Bool.false_eq_true, if_false]
      refine ⟨⟨base, w, npts⟩, ?_, hn, hl, (fun l h => by cases h), ?_⟩
      · unfold ancOf; exact find_append_new g.ancs ⟨base, w, npts⟩ hnew
      · intro b x hx
        unfold ancOf at hx ⊢
        rw [find_append_old _ _ _ ?_]; exact hx
        intro heq
        have hmem := List.mem_of_find?_eq_some hx
        have hb := List.find?_some hx
        simp only [beq_iff_eq] at hb
        exact hnew x hmem (by rw [hb]; exact heq.symm)
  | dims l =>
    obtain ⟨hn, hnew⟩ := hs
    simp only [createSide]
    refine ⟨⟨pfx, writeIndVal l s2f, npointsOf l⟩, ?_, hn, ?_, (fun l' h => by injection h with h; rw [h]), ?_⟩
    · unfold ancOf; exact find_append_new g.ancs ⟨pfx, writeIndVal l s2f, npointsOf l⟩ hnew
    · have := writeIndVal_lens l s2f; simp only; omega
    · intro b x hx
      unfold ancOf at hx ⊢
      rw [find_append_old _ _ _ ?_]; exact hx
      intro heq
      have hmem := List.mem_of_find?_eq_some hx
      have hb := List.find?_some hx
      simp only [beq_iff_eq] at hb
      exact hnew x hmem (by rw [hb]; exact heq.symm)

/-- the checks establish `SideOk` for a side validated against the group it is created in -/
theorem sideOk_of_validate (g : Group) (a : SideArg) (pfx : String) (want : Nat) (hwf : GroupWf g)
    (hv : validateSide g a pfx want = .ok ())
    (hr : ∀ base w npts same, a = .reuse base w npts same → w.labels.length = w.units.length ∧
      (same = true → ancOf g base = some ⟨base, w, npts⟩) ∧ (same = false → ∀ q ∈ g.ancs, q.base ≠ base)) :
    SideOk g a pfx want := by
  cases a with
  | badType => simp only [validateSide] at hv; split at hv <;> simp at hv
  | reuseBad _ _ => simp [validateSide] at hv
  | reuse base w npts same =>
    simp only [validateSide] at hv
    have hn : npts = want := by
      by_cases h : npts = want
      · exact h
      · simp [h] at hv
    obtain ⟨h1, h2, h3⟩ := hr base w npts same rfl
    exact ⟨hn, h1, h2, h3⟩
  | dims l =>
    simp only [validateSide] at hv
    by_cases h1 : pfx ++ "Indices" ∈ g.members
    · simp [h1] at hv
    · by_cases h2 : npointsOf l = want
      · refine ⟨h2, ?_⟩
        intro q hq heq
        have := hwf q hq
        rw [heq] at this
        exact h1 this
      · split at hv
        · cases hv
        · simp [h2] at hv

/-- Whenever the writer accepts, the group gains a main dataset that satisfies EVERY structural rule of a
    USID Main dataset (the rule set of C06), linked to ancillary pairs that cover exactly `n` positions and
    `m` spectroscopic points; and when a side was given as a dimension list, the linked pair is exactly what
    `write_ind_val_dsets` builds from that list under the declared ordering (whose coordinates C08 proves). -/
theorem accept_valid (g : Group) (a : Args)
    (hp : SideOk g a.pos a.posPrefix a.n)
    (hs : SideOk (createSide g a.pos a.posPrefix a.s2f).1 a.spec a.specPrefix a.m)
    (h : (writeMain g a).2 = .ok ()) :
    ∃ r pp sp, r ∈ (writeMain g a).1.mains ∧ r.name = a.name ∧ r.n = a.n ∧ r.m = a.m ∧
      ancOf (writeMain g a).1 r.posBase = some pp ∧ ancOf (writeMain g a).1 r.specBase = some sp ∧
      (∀ l, a.pos = .dims l → pp.w = writeIndVal l a.s2f) ∧ (∀ l, a.spec = .dims l → sp.w = writeIndVal l a.s2f) ∧
      MainRules (descOf (writeMain g a).1 r) := by
  unfold writeMain at h ⊢
  cases hv : validateAll g a with
  | error e => simp [hv] at h
  | ok u =>
    have hst : a.storageOk = true := by
      by_cases hs : a.storageOk = true
      · exact hs
      · simp [hv, hs] at h
    simp only [hst, if_true]
    obtain ⟨pp, hpl, hpn, hplen, hpd, hkeep1⟩ := createSide_link g a.pos a.posPrefix a.s2f a.n hp
    obtain ⟨sp, hsl, hsn, hslen, hsd, hkeep2⟩ :=
      createSide_link (createSide g a.pos a.posPrefix a.s2f).1 a.spec a.specPrefix a.s2f a.m hs
    have hpl2 := hkeep2 _ _ hpl
    refine ⟨⟨a.name, a.n, a.m, (createSide g a.pos a.posPrefix a.s2f).2,
      (createSide (createSide g a.pos a.posPrefix a.s2f).1 a.spec a.specPrefix a.s2f).2⟩, pp, sp,
      by simp [create], rfl, rfl, rfl, ?_, ?_, hpd, hsd, ?_⟩
    · simpa [create, ancOf] using hpl2
    · simpa [create, ancOf] using hsl
    · have e1 : ancOf (create g a) (createSide g a.pos a.posPrefix a.s2f).2 = some pp := by
        simpa [create, ancOf] using hpl2
      have e2 : ancOf (create g a)
          (createSide (createSide g a.pos a.posPrefix a.s2f).1 a.spec a.specPrefix a.s2f).2 = some sp := by
        simpa [create, ancOf] using hsl
      unfold MainRules descOf
      simp only [e1, e2]
      refine ⟨trivial, rfl, trivial, trivial, ?_, ?_⟩
      · exact ⟨_, _, _, _, _, _, rfl, rfl, rfl, rfl, rfl, rfl, hplen, by simp [dim, hpn], by simp [dim]⟩
      · exact ⟨_, _, _, _, _, _, rfl, rfl, rfl, rfl, rfl, rfl, hslen, by simp [dim, hsn], by simp [dim]⟩

/-- The coordinates of an accepted call: the linked pair of a side given as a dimension list stores the
    dimensions slowest-first under both ordering flags, each row carrying label, unit, indices and values of
    the same dimension — this is C08's theorem about `writeIndVal`, restated here for the written file. -/
theorem accept_faithful (dims : List Dim) (s2f : Bool) (j c : Nat)
    (hpos : ∀ dm ∈ dims, 0 < dm.values.length)
    (D : List Dim) (hD : D = if s2f then dims else dims.reverse) (hj : j < D.length)
    (hc : c < (D.map (fun dm => dm.values.length)).prod) :
    (writeIndVal dims s2f).labels = D.map (·.name) ∧ (writeIndVal dims s2f).units = D.map (·.units) ∧
    ∃ ri rv, (writeIndVal dims s2f).indices[j]? = some ri ∧ (writeIndVal dims s2f).values[j]? = some rv ∧
      ri[c]? = some (c / ((D.drop (j + 1)).map (fun dm => dm.values.length)).prod % (D[j]).values.length) ∧
      rv[c]? = (D[j]).values[c / ((D.drop (j + 1)).map (fun dm => dm.values.length)).prod % (D[j]).values.length]? :=
  Usid.C08.written_slowest_first dims s2f j c hpos D hD hj hc

end Usid.C02
