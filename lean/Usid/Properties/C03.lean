import Usid.Proofs.Process
/-! C03 — compute() maps every pending position exactly once and records it. -/
namespace Usid.C03
open Usid Usid.Proc

/-- Successive batches are consecutive slices of the pending list: concatenated in order they are
    exactly the pending positions; each holds at most `batch` positions and none is empty. -/
theorem batches_partition (status : List Nat) (batch : Nat) (hb : 0 < batch) :
    (rankBatches (pending status) 1 0 batch hb).flatten = pending status ∧
    (∀ b ∈ rankBatches (pending status) 1 0 batch hb, b.length ≤ batch ∧ b ≠ []) := by
  refine ⟨rankBatches_single_flatten _ batch hb, ?_⟩
  intro b hbm
  unfold rankBatches at hbm
  obtain ⟨w, hw, rfl⟩ := List.mem_map.mp hbm
  have hs := windows_spec batch hb _ _ w hw
  have hle : w.2 ≤ (pending status).length := by
    have : rankEnd (pending status).length 1 0 = (pending status).length := by simp [rankEnd]
    omega
  have hlen := length_pySlice (pending status) w.1 w.2 hle
  refine ⟨by omega, ?_⟩
  intro h0
  rw [h0] at hlen
  simp at hlen
  omega

/-- The batches are pairwise disjoint and ordered: the concatenation has no duplicates and is strictly
    increasing. -/
theorem batches_disjoint_ordered (status : List Nat) (batch : Nat) (hb : 0 < batch) :
    ((rankBatches (pending status) 1 0 batch hb).flatten).Pairwise (· < ·) := by
  rw [rankBatches_single_flatten]; exact pending_sorted status

/-- The map function is invoked exactly once per position pending at start, never for a completed one:
    the call log is the pending list (no duplicates; membership iff the mark was 0). -/
theorem exactly_once {ρ : Type} (f : Nat → ρ) (s : DS ρ) (batch : Nat) (hb : 0 < batch) :
    (computeRun f s batch hb).2 = pending s.status ∧ (computeRun f s batch hb).2.Nodup ∧
    ∀ p, p ∈ (computeRun f s batch hb).2 ↔ s.status[p]? = some 0 := by
  have h : (computeRun f s batch hb).2 = pending s.status := by
    simp [computeRun, rankBatches_single_flatten]
  rw [h]
  exact ⟨rfl, pending_nodup _, fun p => mem_pending _ p⟩

/-- Final state: the result of every position pending at start is `f` of that position, every other
    result is untouched; every pending position is marked 1 and no other mark changes. -/
theorem final_state {ρ : Type} (f : Nat → ρ) (s : DS ρ) (batch : Nat) (hb : 0 < batch)
    (hlen : s.results.length = s.status.length) (p : Nat) (hp : p < s.status.length) :
    ((computeRun f s batch hb).1.results[p]? =
        if s.status[p]? = some 0 then some (f p) else s.results[p]?) ∧
    ((computeRun f s batch hb).1.status[p]? =
        if s.status[p]? = some 0 then some 1 else s.status[p]?) := by
  exact computeRun_spec f s batch hb hlen p hp

/-- Completion status is 1 everywhere afterwards, provided marks were 0/1 to begin with. -/
theorem all_complete {ρ : Type} (f : Nat → ρ) (s : DS ρ) (batch : Nat) (hb : 0 < batch)
    (hlen : s.results.length = s.status.length) (h01 : ∀ x ∈ s.status, x = 0 ∨ x = 1)
    (p : Nat) (hp : p < s.status.length) : (computeRun f s batch hb).1.status[p]? = some 1 := by
  rw [(final_state f s batch hb hlen p hp).2]
  by_cases h : s.status[p]? = some 0
  · simp [h]
  · simp only [h, if_false]
    have hx := h01 (s.status[p]) (List.getElem_mem hp)
    rw [List.getElem?_eq_getElem hp] at h ⊢
    rcases hx with hx | hx
    · exact absurd (by rw [hx]) h
    · rw [hx]

/-- The batch limit does not influence the outcome. -/
theorem batch_irrelevant {ρ : Type} (f : Nat → ρ) (s : DS ρ) (b b' : Nat) (hb : 0 < b) (hb' : 0 < b') :
    (computeRun f s b hb).1.results = (computeRun f s b' hb').1.results ∧
    (computeRun f s b hb).1.status = (computeRun f s b' hb').1.status ∧
    (computeRun f s b hb).2 = (computeRun f s b' hb').2 := by
  simp [computeRun, foldl_applyBatch, rankBatches_single_flatten]

/-- Serial and multi-core execution give identical results in identical order (in the model the worker
    count never enters the value; joblib's order preservation is what the correspondence samples). -/
theorem cores_irrelevant {α β : Type} (f : α → β) (data : List α) (c c' : Nat) :
    parallelCompute f data c = parallelCompute f data c' ∧
    (parallelCompute f data c).length = data.length ∧
    ∀ i (h : i < data.length), (parallelCompute f data c)[i]? = some (f data[i]) := by
  refine ⟨rfl, by simp [parallelCompute], ?_⟩
  intro i h
  simp [parallelCompute, List.getElem?_eq_getElem h]

/-- What is "pending at start": with a status dataset in the group, its zero entries; in a group left by an old
    version (no status dataset, `last_pixel = k` finished positions) exactly the positions `k, k+1, …, n-1`; in a
    fresh group every position. -/
theorem pending_at_start (n : Nat) :
    (∀ s lp, pending (initialStatus n (some s) lp) = pending s) ∧
    (∀ k : Nat, 0 < k → pending (initialStatus n none (some (k : Int))) = List.range' (min k n) (n - k)) ∧
    (∀ k : Int, k ≤ 0 → pending (initialStatus n none (some k)) = List.range n) ∧
    pending (initialStatus n none none) = List.range n := by
  have hz : pending (List.replicate n 0) = List.range n := by
    unfold pending; rw [pendingFrom_zeros, List.range_eq_range']
  refine ⟨fun s lp => rfl, ?_, ?_, hz⟩
  · intro k hk
    have : ((k : Int) > 0) := by omega
    simp only [initialStatus, this, if_true, Int.toNat_natCast]
    exact pending_markPrefix_zeros n k
  · intro k hk
    have : ¬ (k > 0) := by omega
    simp only [initialStatus, this, if_false]
    exact hz

/-- Resuming a legacy group (`last_pixel = k`, `0 < k ≤ n`): the map function is invoked for the positions
    `k … n-1` and no other, position `p` ends up holding `f p` exactly when `k ≤ p`, every earlier result is left
    alone, and all marks are 1 afterwards. -/
theorem legacy_resume {ρ : Type} (f : Nat → ρ) (old : List ρ) (n k batch : Nat) (hb : 0 < batch)
    (hk : 0 < k) (hkn : k ≤ n) (hlen : old.length = n) :
    let s : DS ρ := ⟨old, initialStatus n none (some (k : Int))⟩
    (computeRun f s batch hb).2 = List.range' k (n - k) ∧
    ∀ p, p < n →
      (computeRun f s batch hb).1.results[p]? = (if k ≤ p then some (f p) else old[p]?) ∧
      (computeRun f s batch hb).1.status[p]? = some 1 := by
  intro s
  have hst : s.status = markPrefix (List.replicate n 0) k := by
    have : ((k : Int) > 0) := by omega
    simp only [s, initialStatus, this, if_true, Int.toNat_natCast]
  have hslen : s.status.length = n := by
    rw [hst]; simp [markPrefix]; omega
  have hget : ∀ p, p < n → s.status[p]? = some (if p < k then 1 else 0) := by
    intro p hp
    rw [hst]; unfold markPrefix
    rw [List.drop_replicate, Nat.min_eq_left (by simpa using hkn)]
    by_cases h : p < k
    · rw [List.getElem?_append_left (by simpa using h)]; simp [h]
    · rw [List.getElem?_append_right (by simpa using h)]
      have hh : p - k < n - k := by omega
      simp [h, hh]
  refine ⟨?_, ?_⟩
  · rw [(exactly_once f s batch hb).1, hst, pending_markPrefix_zeros, Nat.min_eq_left hkn]
  · intro p hp
    have hfs := final_state f s batch hb (by rw [hslen]; exact hlen) p (by rw [hslen]; exact hp)
    rw [hget p hp] at hfs
    by_cases h : p < k
    · have h' : ¬ k ≤ p := by omega
      simpa [h, h'] using hfs
    · have h' : k ≤ p := by omega
      simpa [h, h'] using hfs

example : pending (initialStatus 6 none (some 4)) = [4, 5] ∧ pending (initialStatus 3 none (some 7)) = [] := by
  decide

example : (computeRun (fun p => 10 * p) ⟨[7, 7, 7, 7, 7], [0, 1, 0, 0, 1]⟩ 2 (by decide)).1.results = [0, 7, 20, 30, 7] ∧
    (computeRun (fun p => 10 * p) ⟨[7, 7, 7, 7, 7], [0, 1, 0, 0, 1]⟩ 2 (by decide)).2 = [0, 2, 3] := by
  simp [computeRun, rankBatches, windows, pending, pendingFrom, rankStart, rankEnd, pySlice, applyBatch]

end Usid.C03
