import Usid.Proofs.Crash
/-! C04 — checkpoints are crash-consistent; interrupted runs resume to the same result. -/
namespace Usid.C04
open Usid Usid.Proc Usid.Crash

/-- For EVERY trace of file events (not only the ones the model emits): if the decidable acceptance
    `WellFormed` holds, then at every crash point both survivors — the gracefully closed contents and
    the contents as of the last flush — mark no position complete unless its final result is stored. -/
theorem wf_implies_consistent (final : Nat → Int) (t : List Ev) (h : WellFormed final t = true) (i : Nat) :
    Consistent final (run {} (t.take i)).vol ∧ Consistent final (run {} (t.take i)).dur :=
  wf_prefix_inv final t {} (inv_empty final) h i

/-- The trace emitted by the modelled compute loop is well formed for every pending set, every batch
    partition, results in the source file or in a separate file, whichever files are flushed. -/
theorem model_trace_wf (final : Nat → Int) (rf g : Nat) (fl : List Nat) (bs : List (List Nat)) :
    WellFormed final (computeTrace final rf g fl bs) = true :=
  wf_computeTrace final rf g fl bs {}

/-- Every crash point of the modelled run: both survivors, read back as the two datasets laid over the
    state the run started from, are `Good` — each position is either exactly as before or was pending and
    is now marked with its final result stored.  (Source-file results; any batch limit.) -/
theorem crash_survivors_good (final : Nat → Int) (s0 : DS Int) (hlen : s0.results.length = s0.status.length)
    (b i : Nat) :
    Good final s0 (project s0 (run {} ((attemptTrace final s0 b).take i)).vol 0 0) ∧
    Good final s0 (project s0 (run {} ((attemptTrace final s0 b).take i)).dur 0 0) := by
  have hwf : wfFrom final {} (attemptTrace final s0 b) = true := wf_computeTrace final 0 0 [0] _ {}
  have hinv := wf_prefix_inv final _ {} (inv_empty final) hwf i
  have hkeys : ∀ e ∈ (attemptTrace final s0 b).take i,
      evKeys (fun k => k.file = 0 → k.grp = 0 → s0.status[k.pos]? = some 0) e := by
    intro e he
    apply computeTrace_keys final 0 0 [0] _ _ _ e ((List.take_sublist _ _).subset he)
    intro bt hbt p hp _ _
    apply (mem_pending s0.status p).mp
    have hflat : p ∈ (rankBatches (pending s0.status) 1 0 (b + 1) (Nat.succ_pos b)).flatten :=
      List.mem_flatten.mpr ⟨bt, hbt, hp⟩
    rw [rankBatches_single_flatten] at hflat
    exact hflat
  have hall := allKeys_run _ ((attemptTrace final s0 b).take i) {} (by constructor <;> simp) (by constructor <;> simp) hkeys
  exact ⟨survivor_good final s0 _ 0 0 hlen hinv.1 hall.1, survivor_good final s0 _ 0 0 hlen hinv.2 hall.2⟩

/-- After ANY list of successive interruptions (each with its own batch limit, crash point and survivor
    kind) the surviving datasets are still `Good` with respect to the very first state. -/
theorem interruptions_good (final : Nat → Int) (l : List Interruption) (s0 : DS Int)
    (hlen : s0.results.length = s0.status.length) :
    Good final s0 (afterInterruptions final s0 l) ∧
    (afterInterruptions final s0 l).results.length = (afterInterruptions final s0 l).status.length := by
  induction l generalizing s0 with
  | nil => exact ⟨good_refl final s0, hlen⟩
  | cons x rest ih =>
    simp only [afterInterruptions]
    have hg := crash_survivors_good final s0 hlen x.b x.i
    have hg1 : Good final s0 (project s0 (if x.kill = true then (run {} ((attemptTrace final s0 x.b).take x.i)).dur
        else (run {} ((attemptTrace final s0 x.b).take x.i)).vol) 0 0) := by
      cases x.kill <;> simp [hg.1, hg.2]
    have hlen1 : (project s0 (if x.kill = true then (run {} ((attemptTrace final s0 x.b).take x.i)).dur
        else (run {} ((attemptTrace final s0 x.b).take x.i)).vol) 0 0).results.length =
        (project s0 (if x.kill = true then (run {} ((attemptTrace final s0 x.b).take x.i)).dur
        else (run {} ((attemptTrace final s0 x.b).take x.i)).vol) 0 0).status.length := by
      rw [hg1.1, hg1.2.1, hlen]
    have := ih _ hlen1
    exact ⟨good_trans final _ _ _ hg1 this.1, this.2⟩

/-- Resuming after any number of interruptions and running to completion (with any batch limit) gives
    exactly the results and status of the uninterrupted run. -/
theorem resume_equiv (final : Nat → Int) (l : List Interruption) (s0 : DS Int)
    (hlen : s0.results.length = s0.status.length) (b b' : Nat) (hb : 0 < b) (hb' : 0 < b') :
    (computeRun final (afterInterruptions final s0 l) b hb).1.results = (computeRun final s0 b' hb').1.results ∧
    (computeRun final (afterInterruptions final s0 l) b hb).1.status = (computeRun final s0 b' hb').1.status :=
  resume_same final s0 _ b b' hb hb' hlen (interruptions_good final l s0 hlen).1

/-- The resumed attempt invokes the map function exactly for the positions not marked in the survivor
    (so completed results are never recomputed), and leaves every marked result untouched. -/
theorem resume_recomputes_only_unmarked (final : Nat → Int) (s : DS Int) (b : Nat) (hb : 0 < b)
    (hlen : s.results.length = s.status.length) :
    (computeRun final s b hb).2 = pending s.status ∧
    ∀ p, p < s.status.length → s.status[p]? ≠ some 0 →
      (computeRun final s b hb).1.results[p]? = s.results[p]? := by
  refine ⟨resume_calls final s b hb, ?_⟩
  intro p hp hne
  rw [(computeRun_spec final s b hb hlen p hp).1]
  simp [hne]

/-- Durability: a completion mark written before a checkpoint (a flush of the file holding it) is
    recorded as complete in the kill survivor from then on, whatever happens afterwards. -/
theorem durable_marks (w : World) (t1 t2 : List Ev) (f : Nat) (k : Key) (hf : k.file = f)
    (hk : k ∈ (run w t1).vol.marked) : k ∈ (run w (t1 ++ Ev.flush f :: t2)).dur.marked := by
  rw [run_append]
  simp only [run, List.foldl_cons]
  apply dur_marked_keep_run t2
  · exact vol_marked_mono _ _ k hk
  · simp only [step]
    rw [mem_flush_marked]
    simp [hf]; exact hk

/-- Durability for the modelled compute loop, results in the source file OR in a separate file: once the
    checkpoint of a later batch `b` has been taken, every mark written by the earlier batches `bs1` is in
    the kill survivor, whatever follows. -/
theorem durable_marks_model (final : Nat → Int) (same : Bool) (g : Nat) (bs1 : List (List Nat)) (b : List Nat)
    (rest : List Ev) (p : Nat) (hp : p ∈ bs1.flatten) :
    (⟨resFileOf same, g, p⟩ : Key) ∈
      (run {} (computeTrace final (resFileOf same) g (codeFlushes same) bs1 ++
        (b.map (fun q => Ev.writeRes ⟨resFileOf same, g, q⟩ (final q)) ++
          (Ev.other :: (codeFlushes same).map Ev.flush) ++ rest))).dur.marked := by
  have hmem : resFileOf same ∈ codeFlushes same := by cases same <;> simp [resFileOf, codeFlushes]
  obtain ⟨l1, l2, hl⟩ := List.append_of_mem hmem
  have hv := marks_in_vol final (resFileOf same) g (codeFlushes same) bs1 {} p hp
  have e : computeTrace final (resFileOf same) g (codeFlushes same) bs1 ++
      (b.map (fun q => Ev.writeRes ⟨resFileOf same, g, q⟩ (final q)) ++
        (Ev.other :: (codeFlushes same).map Ev.flush) ++ rest) =
      (computeTrace final (resFileOf same) g (codeFlushes same) bs1 ++
        (b.map (fun q => Ev.writeRes ⟨resFileOf same, g, q⟩ (final q)) ++ (Ev.other :: l1.map Ev.flush))) ++
      Ev.flush (resFileOf same) :: (l2.map Ev.flush ++ rest) := by
    rw [hl]; simp [List.append_assoc]
  rw [e]
  apply durable_marks _ _ _ _ _ rfl
  rw [run_append]
  exact vol_marked_mono_run _ _ _ hv

/-- Why the results file must be among the flushed files: if it is not (the code before the repair
    flushed the source file only), NO mark of a separate results file is ever durable, for any pending
    set and batch partition. -/
theorem durable_marks_needs_results_flush (final : Nat → Int) (g : Nat) (bs : List (List Nat)) :
    ∀ k ∈ (run {} (computeTrace final 1 g [0] bs)).dur.marked, k.file ≠ 1 :=
  dur_untouched final 1 g [0] (by simp) bs {} (by simp) (by simp)

/-- **The per-batch checkpoint.**  The modelled compute loop, flushing the files the code flushes, writes a
    completion mark only when the result it vouches for is already DURABLE in the file that holds the results -
    for every pending set, every batch partition, results in the source file or in a separate file.  (This is the
    acceptance `wfStrong` the observed trace of the real `compute()` must pass as well: oracle checkpoint-missing.) -/
theorem model_trace_checkpointed (final : Nat → Int) (same : Bool) (g : Nat) (bs : List (List Nat)) :
    wfStrongFrom final {} (computeTrace final (resFileOf same) g (codeFlushes same) bs) = true :=
  strong_computeTrace final _ g _ (by cases same <;> simp [resFileOf, codeFlushes]) bs {}

/-- ... and the stronger acceptance implies the plain one for every trace -/
theorem checkpointed_implies_wf (final : Nat → Int) (t : List Ev) (h : wfStrongFrom final {} t = true) :
    WellFormed final t = true := wfStrong_imp_wf final t {} h

/-- without a flush of the results file (a `Dataset.flush()` in place of `File.flush()`, or the source file only)
    the very first mark is refused -/
example : wfStrongFrom (fun p => 10 * p) {} (computeTrace (fun p => 10 * p) 0 0 [] [[0, 2], [3, 4]]) = false ∧
    wfStrongFrom (fun p => 10 * p) {} (computeTrace (fun p => 10 * p) 1 0 [0] [[0, 2], [3, 4]]) = false ∧
    wfStrongFrom (fun p => 10 * p) {} (computeTrace (fun p => 10 * p) 1 0 [0, 1] [[0, 2], [3, 4]]) = true := by decide

/-! Non-vacuity: a concrete run (N = 5, batch 2, mask 01000), an ill-formed trace, a crash index. -/
example : WellFormed (fun p => 10 * p) (computeTrace (fun p => 10 * p) 0 0 [0] [[0, 2], [3, 4]]) = true := by
  decide
example : WellFormed (fun p => 10 * p) [.mark ⟨0, 0, 3⟩, .writeRes ⟨0, 0, 3⟩ 30] = false := by decide
example : (project ⟨[0, 7, 0, 0, 0], [0, 1, 0, 0, 0]⟩
    (run {} ((computeTrace (fun p => 10 * p) 0 0 [0] [[0, 2], [3, 4]]).take 10)).dur 0 0).status = [1, 1, 1, 0, 0] ∧
    (project ⟨[0, 7, 0, 0, 0], [0, 1, 0, 0, 0]⟩
    (run {} ((computeTrace (fun p => 10 * p) 0 0 [0] [[0, 2], [3, 4]]).take 7)).vol 0 0).results = [0, 7, 20, 30, 0] ∧
    (project ⟨[0, 7, 0, 0, 0], [0, 1, 0, 0, 0]⟩
    (run {} ((computeTrace (fun p => 10 * p) 0 0 [0] [[0, 2], [3, 4]]).take 7)).dur 0 0).status = [0, 1, 0, 0, 0] := by
  decide

end Usid.C04
