import Usid.Model.Dup
import Usid.Proofs.Process
/-! C05 — results are reused only for same dataset, tool, parameters, and if complete. -/
namespace Usid.C05
open Usid Usid.Grp Usid.Attrs Usid.Dup

/-- the progress record says: every position complete -/
def CompleteRec (n : Nat) (g : ResGroup) : Prop :=
  match g.status with
  | .dataset len rank u8 vals => len = n ∧ rank = 1 ∧ u8 = true ∧ (vals.length = n → ∀ v ∈ vals, v = 1)
  | .absent => ∃ lp, g.lastPixel = some lp ∧ (n : Int) ≤ lp
  | .notDataset => False

/-- the progress record is well formed and says: some position still pending -/
def PartialRec (n : Nat) (g : ResGroup) : Prop :=
  match g.status with
  | .dataset len rank u8 vals => len = n ∧ rank = 1 ∧ u8 = true ∧ (∀ v ∈ vals, v ≤ 1) ∧
      (vals.filter (· == 1)).length < n
  | .absent => ∃ lp, g.lastPixel = some lp ∧ lp < (n : Int)
  | .notDataset => False

/-- this group was made for exactly this (dataset, tool) with matching parameters - and, as far as the file
    records it, for this very dataset rather than another one of the same name -/
def Matches (g : ResGroup) (dset tool : Str) (parms : Dict) : Prop :=
  g.isGroup = true ∧ g.otherSource = false ∧ (∃ k, indexOf (resultsPrefix dset tool) g.name = some k) ∧
    matchAll g.attrs parms = true

theorem filter_full {α : Type} (p : α → Bool) : ∀ (l : List α), l.length ≤ (l.filter p).length → ∀ a ∈ l, p a = true
  | [], _, a, ha => by simp at ha
  | x :: xs, h, a, ha => by
    by_cases hx : p x = true
    · simp only [List.filter, hx, List.length_cons] at h
      rcases List.mem_cons.mp ha with rfl | ha
      · exact hx
      · exact filter_full p xs (by omega) a ha
    · have hx' : p x = false := by simpa using hx
      simp only [List.filter, hx', List.length_cons] at h
      have := List.length_filter_le p xs
      omega

theorem classify_dup (n : Nat) (g : ResGroup) (h : (classify n g).1 = .dup) : CompleteRec n g := by
  unfold classify at h
  unfold CompleteRec
  cases hs : g.status with
  | notDataset => simp [hs] at h
  | absent =>
    simp only [hs] at h ⊢
    cases hl : g.lastPixel with
    | none => simp [hl] at h
    | some lp =>
      simp only [hl] at h
      by_cases hlt : lp < (n : Int)
      · simp [hlt] at h
      · exact ⟨lp, rfl, by omega⟩
  | dataset len rank u8 vals =>
    simp only [hs] at h ⊢
    by_cases hu : statusUsable n (.dataset len rank u8 vals) = true
    · simp only [hu, Bool.not_true, Bool.false_eq_true, if_false] at h
      by_cases hc : (vals.filter (· == 1)).length < n
      · simp [hc] at h
      · simp only [statusUsable, Bool.and_eq_true, beq_iff_eq, List.all_eq_true, decide_eq_true_eq] at hu
        obtain ⟨⟨⟨h1, h2⟩, h3⟩, _⟩ := hu
        refine ⟨h1, h2, h3, ?_⟩
        intro hlen v hv
        have := filter_full (· == 1) vals (by omega) v hv
        simpa using this
    · simp [hu] at h

theorem classify_part (n : Nat) (g : ResGroup) (h : (classify n g).1 = .part) : PartialRec n g := by
  unfold classify at h
  unfold PartialRec
  cases hs : g.status with
  | notDataset => simp [hs] at h
  | absent =>
    simp only [hs] at h ⊢
    cases hl : g.lastPixel with
    | none => simp [hl] at h
    | some lp =>
      simp only [hl] at h
      by_cases hlt : lp < (n : Int)
      · exact ⟨lp, rfl, hlt⟩
      · simp [hlt] at h
  | dataset len rank u8 vals =>
    simp only [hs] at h ⊢
    by_cases hu : statusUsable n (.dataset len rank u8 vals) = true
    · simp only [hu, Bool.not_true, Bool.false_eq_true, if_false] at h
      by_cases hc : (vals.filter (· == 1)).length < n
      · simp only [statusUsable, Bool.and_eq_true, beq_iff_eq, List.all_eq_true, decide_eq_true_eq] at hu
        obtain ⟨⟨⟨h1, h2⟩, h3⟩, h4⟩ := hu
        exact ⟨h1, h2, h3, h4, hc⟩
      · simp [hc] at h
    · simp [hu] at h

theorem mem_matching (gs : List ResGroup) (d t : Str) (parms : Dict) (g : ResGroup)
    (h : g ∈ matching gs d t parms) : g ∈ gs ∧ Matches g d t parms := by
  unfold matching at h
  obtain ⟨h1, h2⟩ := List.mem_filter.mp h
  simp only [Bool.and_eq_true, Bool.not_eq_true'] at h2
  exact ⟨h1, h2.1.1.1, h2.1.1.2, Option.isSome_iff_exists.mp h2.1.2, h2.2⟩

/-- A group is returned without computing only if it is one of the existing groups, named for exactly this
    dataset and tool (C13.lookup_exact), every requested parameter matches the stored one, and its progress
    record is well formed and marks every position complete. -/
theorem returned_is_genuine (gs : List ResGroup) (d t : Str) (parms : Dict) (n : Nat) (nm : Str)
    (h : decision gs d t parms n false = .returnExisting nm) :
    ∃ g ∈ gs, g.name = nm ∧ Matches g d t parms ∧ CompleteRec n g := by
  unfold decision at h
  simp only [Bool.false_eq_true, if_false] at h
  cases hd : (dupsOf n (matching gs d t parms)).getLast? with
  | none =>
    simp only [hd] at h
    cases hp : (partialsOf n (matching gs d t parms)).getLast? <;> simp [hp] at h
  | some g =>
    simp only [hd] at h
    injection h with h
    have hg : g ∈ dupsOf n (matching gs d t parms) := List.mem_of_getLast? hd
    obtain ⟨hm, hc⟩ := List.mem_filter.mp hg
    obtain ⟨hgs, hmatch⟩ := mem_matching gs d t parms g hm
    exact ⟨g, hgs, h, hmatch, classify_dup n g (by simpa using hc)⟩

/-- Otherwise the most recent matching incomplete group is resumed: there is no complete matching group,
    and the resumed group is the LAST of the matching groups with a well-formed incomplete record. -/
theorem resume_is_most_recent_partial (gs : List ResGroup) (d t : Str) (parms : Dict) (n : Nat) (nm : Str)
    (h : decision gs d t parms n false = .resume nm) :
    dupsOf n (matching gs d t parms) = [] ∧
    ∃ g, (partialsOf n (matching gs d t parms)).getLast? = some g ∧ g.name = nm ∧ g ∈ gs ∧
      Matches g d t parms ∧ PartialRec n g := by
  unfold decision at h
  simp only [Bool.false_eq_true, if_false] at h
  cases hd : (dupsOf n (matching gs d t parms)).getLast? with
  | some g => simp [hd] at h
  | none =>
    simp only [hd] at h
    cases hp : (partialsOf n (matching gs d t parms)).getLast? with
    | none => simp [hp] at h
    | some g =>
      simp only [hp] at h
      injection h with h
      have hg : g ∈ partialsOf n (matching gs d t parms) := List.mem_of_getLast? hp
      obtain ⟨hm, hc⟩ := List.mem_filter.mp hg
      obtain ⟨hgs, hmatch⟩ := mem_matching gs d t parms g hm
      exact ⟨List.getLast?_eq_none_iff.mp hd, g, rfl, h, hgs, hmatch, classify_part n g (by simpa using hc)⟩

/-- ... and otherwise a new group is created: a fresh computation happens exactly when no matching group
    is complete or resumable (or when it is forced). -/
theorem else_fresh (gs : List ResGroup) (d t : Str) (parms : Dict) (n : Nat) :
    decision gs d t parms n false = .fresh ↔
      (dupsOf n (matching gs d t parms) = [] ∧ partialsOf n (matching gs d t parms) = []) := by
  unfold decision
  simp only [Bool.false_eq_true, if_false]
  constructor
  · intro h
    cases hd : (dupsOf n (matching gs d t parms)).getLast? with
    | some g => simp [hd] at h
    | none =>
      cases hp : (partialsOf n (matching gs d t parms)).getLast? with
      | some g => simp [hd, hp] at h
      | none => exact ⟨List.getLast?_eq_none_iff.mp hd, List.getLast?_eq_none_iff.mp hp⟩
  · rintro ⟨h1, h2⟩
    simp [h1, h2]

theorem name_unique : ∀ (gs : List ResGroup), (gs.map (·.name)).Nodup → ∀ g g', g ∈ gs → g' ∈ gs →
    g.name = g'.name → g = g'
  | [], _, _, _, h, _, _ => by simp at h
  | x :: xs, hnd, g, g', hg, hg', hn => by
    simp only [List.map_cons, List.nodup_cons] at hnd
    rcases List.mem_cons.mp hg with e1 | h1
    · rcases List.mem_cons.mp hg' with e2 | h2
      · rw [e1, e2]
      · exact (hnd.1 (by rw [← e1, hn]; exact List.mem_map.mpr ⟨g', h2, rfl⟩)).elim
    · rcases List.mem_cons.mp hg' with e2 | h2
      · exact (hnd.1 (by rw [← e2, ← hn]; exact List.mem_map.mpr ⟨g, h1, rfl⟩)).elim
      · exact name_unique xs hnd.2 g g' h1 h2 hn

/-- Groups of another dataset or tool, groups with different parameters, and groups with malformed or
    missing progress records are never returned and never resumed. -/
theorem malformed_never_used (gs : List ResGroup) (d t : Str) (parms : Dict) (n : Nat) (ov : Bool)
    (hnd : (gs.map (·.name)).Nodup) (g : ResGroup) (hg : g ∈ gs)
    (hbad : (classify n g).1 = .skip ∨ ¬ Matches g d t parms) :
    decision gs d t parms n ov ≠ .returnExisting g.name ∧ decision gs d t parms n ov ≠ .resume g.name := by
  cases ov with
  | true => simp [decision]
  | false =>
    constructor
    · intro h
      obtain ⟨g', hg', hn, hm, hc⟩ := returned_is_genuine gs d t parms n g.name h
      have e := name_unique gs hnd g' g hg' hg hn
      subst e
      rcases hbad with hs | hnm
      · unfold classify at hs; unfold CompleteRec at hc
        cases hst : g'.status with
        | notDataset => simp [hst] at hc
        | absent =>
          simp only [hst] at hs hc
          obtain ⟨lp, hl, hle⟩ := hc
          simp only [hl] at hs
          split at hs <;> simp at hs
        | dataset len rank u8 vals =>
          -- returned ⇒ classified `dup`, contradiction with `skip`
          have hdup : (classify n g').1 = .dup := by
            unfold decision at h
            simp only [Bool.false_eq_true, if_false] at h
            cases hd : (dupsOf n (matching gs d t parms)).getLast? with
            | none =>
              simp only [hd] at h
              cases hp : (partialsOf n (matching gs d t parms)).getLast? <;> simp [hp] at h
            | some g2 =>
              simp only [hd] at h
              injection h with h
              have hg2 : g2 ∈ dupsOf n (matching gs d t parms) := List.mem_of_getLast? hd
              obtain ⟨hm2, hc2⟩ := List.mem_filter.mp hg2
              have e2 := name_unique gs hnd g2 g' (mem_matching gs d t parms g2 hm2).1 hg h
              subst e2
              simpa using hc2
          have : (classify n g').1 = .skip := by unfold classify; exact hs
          rw [hdup] at this; cases this
      · exact hnm hm
    · intro h
      obtain ⟨_, g', hp, hn, hg', hm, hc⟩ := resume_is_most_recent_partial gs d t parms n g.name h
      have e := name_unique gs hnd g' g hg' hg hn
      subst e
      rcases hbad with hs | hnm
      · have hg2 : g' ∈ partialsOf n (matching gs d t parms) := List.mem_of_getLast? hp
        have hc2 := (List.mem_filter.mp hg2).2
        have : (classify n g').1 = .part := by simpa using hc2
        rw [this] at hs; cases hs
      · exact hnm hm

/-- A forced fresh computation never reuses and never alters any existing group: constructing the process
    (which looks at every matching group) leaves every group exactly as it found it. -/
theorem override_fresh_and_frame (gs : List ResGroup) (d t : Str) (parms : Dict) (n : Nat) :
    decision gs d t parms n true = .fresh ∧ afterConstruct gs d t parms n = gs := by
  refine ⟨by simp [decision], ?_⟩
  have hc : ∀ g : ResGroup, (classify n g).2 = g := by
    intro g
    unfold classify
    cases g.status with
    | notDataset => rfl
    | absent =>
      cases g.lastPixel with
      | none => rfl
      | some lp => simp only; split <;> rfl
    | dataset len rank u8 vals =>
      simp only
      split
      · rfl
      · split <;> rfl
  unfold afterConstruct
  conv => rhs; rw [← List.map_id gs]
  apply List.map_congr_left
  intro g _
  simp only [hc, ite_self, id]

example : decision [{ name := "Raw_Data-Fitter_000".toList, status := .dataset 2 1 true [1, 1] }]
    "Raw".toList "Fit".toList [] 2 false = .fresh := by decide
example : decision [{ name := "Raw-Fit_000".toList, status := .dataset 2 1 true [1, 1] },
                  { name := "Raw-Fit_001".toList, status := .dataset 2 1 true [1, 0] }]
    "Raw".toList "Fit".toList [] 2 false = .returnExisting "Raw-Fit_000".toList := by decide
example : decision [{ name := "Raw-Fit_000".toList, status := .dataset 2 1 true [2, 2] }]
    "Raw".toList "Fit".toList [] 2 false = .fresh := by decide

/-- (the two legacy cases of `Usid.C03.pending_at_start`, restated on the helper lemmas) -/
theorem pending_at_start_legacy (n : Nat) :
    (∀ k : Nat, 0 < k → Usid.Proc.pending (Usid.Proc.initialStatus n none (some (k : Int))) = List.range' (min k n) (n - k)) ∧
    (∀ k : Int, k ≤ 0 → Usid.Proc.pending (Usid.Proc.initialStatus n none (some k)) = List.range n) := by
  have hz : Usid.Proc.pending (List.replicate n 0) = List.range n := by
    unfold Usid.Proc.pending; rw [Usid.Proc.pendingFrom_zeros, List.range_eq_range']
  refine ⟨?_, ?_⟩
  · intro k hk
    have : ((k : Int) > 0) := by omega
    simp only [Usid.Proc.initialStatus, this, if_true, Int.toNat_natCast]
    exact Usid.Proc.pending_markPrefix_zeros n k
  · intro k hk
    have : ¬ (k > 0) := by omega
    simp only [Usid.Proc.initialStatus, this, if_false]
    exact hz

/-! ### the decision (C05) and the run (C03) read the progress record alike -/

/-- the completion marks `compute()` starts from when it resumes in group `g` (model of C03) -/
def startMarks (n : Nat) (g : ResGroup) : List Nat :=
  Usid.Proc.initialStatus n (match g.status with | .dataset _ _ _ vals => some vals | _ => none) g.lastPixel

theorem pending_nil_iff (st : List Nat) : Usid.Proc.pending st = [] ↔ ∀ v ∈ st, v ≠ 0 := by
  constructor
  · intro h v hv h0
    obtain ⟨i, hi, hget⟩ := List.getElem_of_mem hv
    have : i ∈ Usid.Proc.pending st := (Usid.Proc.mem_pending st i).mpr (by
      rw [List.getElem?_eq_getElem hi, hget, h0])
    rw [h] at this; cases this
  · intro h
    cases hp : Usid.Proc.pending st with
    | nil => rfl
    | cons p ps =>
      have hm : p ∈ Usid.Proc.pending st := by rw [hp]; exact List.mem_cons_self
      have h0 := (Usid.Proc.mem_pending st p).mp hm
      have hlt : p < st.length := by
        by_cases hl : p < st.length
        · exact hl
        · rw [List.getElem?_eq_none (by omega)] at h0; cases h0
      rw [List.getElem?_eq_getElem hlt] at h0
      exact absurd (Option.some.inj h0) (h _ (List.getElem_mem hlt))

/-- **A group is returned as complete exactly when resuming in it would compute nothing; it is resumed exactly
    when something is pending.**  For every group whose progress record is usable (a status dataset of `n`
    entries, or - in the legacy form - the attribute `last_pixel`) and every `n ≥ 1`: the classification of
    `_check_for_duplicates` (C05) agrees with the pending list `compute()` derives from the same record (C03). -/
theorem complete_iff_nothing_pending (n : Nat) (hn : 0 < n) (g : ResGroup)
    (hrec : (∃ len rank u8 vals, g.status = .dataset len rank u8 vals ∧ statusUsable n g.status = true ∧ vals.length = n) ∨
            (g.status = .absent ∧ ∃ lp, g.lastPixel = some lp)) :
    ((classify n g).1 = .dup ↔ Usid.Proc.pending (startMarks n g) = []) ∧
    ((classify n g).1 = .part ↔ Usid.Proc.pending (startMarks n g) ≠ []) := by
  rcases hrec with ⟨len, rank, u8, vals, hs, hu, hlen⟩ | ⟨hs, lp, hlp⟩
  · have hst : startMarks n g = vals := by simp [startMarks, hs, Usid.Proc.initialStatus]
    have hall : ∀ v ∈ vals, v ≤ 1 := by
      rw [hs] at hu
      simp only [statusUsable, Bool.and_eq_true, List.all_eq_true, decide_eq_true_eq] at hu
      exact hu.2
    have hcount : (vals.filter (· == 1)).length = n ↔ ∀ v ∈ vals, v ≠ 0 := by
      constructor
      · intro h v hv h0
        have hf := filter_full (· == 1) vals (by rw [h, hlen]; exact Nat.le_refl _) v hv
        simp only [beq_iff_eq] at hf
        omega
      · intro h
        have : vals.filter (· == 1) = vals := by
          rw [List.filter_eq_self]
          intro v hv
          have h1 := hall v hv
          have h2 := h v hv
          simp only [beq_iff_eq]; omega
        rw [this, hlen]
    have hle : (vals.filter (· == 1)).length ≤ n := by rw [← hlen]; exact List.length_filter_le _ _
    have hpn := pending_nil_iff vals
    rw [hst]
    unfold classify
    rw [hs] at hu ⊢
    simp only [hu, Bool.not_true, Bool.false_eq_true, if_false]
    by_cases hc : (vals.filter (· == 1)).length < n
    · have hne : ¬ ∀ v ∈ vals, v ≠ 0 := fun h => by have := hcount.mpr h; omega
      have hne' : Usid.Proc.pending vals ≠ [] := fun h => hne (hpn.mp h)
      simp [hc, hne']
    · have heq : (vals.filter (· == 1)).length = n := by omega
      have he : Usid.Proc.pending vals = [] := hpn.mpr (hcount.mp heq)
      simp [hc, he]
  · have hst : startMarks n g = Usid.Proc.initialStatus n none (some lp) := by simp [startMarks, hs, hlp]
    have hp := pending_at_start_legacy n
    unfold classify
    rw [hs, hlp, hst]
    simp only
    by_cases hpos : 0 < lp
    · obtain ⟨k, rfl⟩ : ∃ k : Nat, lp = (k : Int) := ⟨lp.toNat, by omega⟩
      have hk : 0 < k := by omega
      rw [hp.1 k hk]
      by_cases hc : (k : Int) < (n : Int)
      · have : k < n := by omega
        have hne : List.range' (min k n) (n - k) ≠ [] := by
          intro h
          have := congrArg List.length h
          simp at this; omega
        simp [hc, hne]
      · have : n ≤ k := by omega
        have he : List.range' (min k n) (n - k) = [] := by
          have : n - k = 0 := by omega
          rw [this]; rfl
        simp [hc, he]
    · rw [hp.2 lp (by omega)]
      have hc : lp < (n : Int) := by omega
      have hne : List.range n ≠ [] := by
        intro h
        have := congrArg List.length h
        simp at this; omega
      simp [hc, hne]

/-- non-vacuity: a usable partial record, and the legacy form -/
example : (classify 3 { name := [], status := .dataset 3 1 true [1, 0, 1] }).1 = .part ∧
    Usid.Proc.pending (startMarks 3 { name := [], status := .dataset 3 1 true [1, 0, 1] }) = [1] ∧
    (classify 3 { name := [], lastPixel := some 2 }).1 = .part ∧
    Usid.Proc.pending (startMarks 3 { name := [], lastPixel := some 2 }) = [2] ∧
    (classify 3 { name := [], lastPixel := some 3 }).1 = .dup ∧
    Usid.Proc.pending (startMarks 3 { name := [], lastPixel := some 3 }) = [] := by decide

end Usid.C05
