import Usid.Model.MainCheck
/-! C06 — Main-dataset recognition is total and matches the structural definition. -/
namespace Usid.C06
open Usid Usid.MainCheck

theorem pair_of_ok (inds vals : Link) (isSpec : Bool) (n : Nat)
    (hd : inds.isDataset = true) (hd' : vals.isDataset = true)
    (h2 : inds.shape.length = 2)
    (hs : inds.shape = vals.shape) (hn : dim inds.shape (if isSpec then 1 else 0) = n)
    (ha : ancAttrsOk inds vals isSpec = true) : PairRules inds vals isSpec n := by
  cases inds with
  | toDataset si li ui =>
    cases vals with
    | toDataset sv lv uv =>
      simp only [ancAttrsOk, Link.labels, Link.unitsA, Link.shape] at ha h2 hs hn
      cases li <;> cases ui <;> cases lv <;> cases uv <;> simp at ha
      rename_i li ui lv uv
      obtain ⟨⟨⟨⟨⟨a1, a2⟩, a3⟩, a4⟩, a5⟩, a6⟩ := ha
      refine ⟨si, sv, li, lv, ui, uv, rfl, rfl, h2, hs, a3, a4, a2, hn, ?_⟩
      rw [a6, a3]
    | _ => simp [Link.isDataset] at hd'
  | _ => simp [Link.isDataset] at hd

theorem ok_of_pair (inds vals : Link) (isSpec : Bool) (n : Nat) (h : PairRules inds vals isSpec n) :
    inds.resolves = true ∧ vals.resolves = true ∧ inds.isDataset = true ∧ vals.isDataset = true ∧
    inds.shape.length = 2 ∧ vals.shape.length = 2 ∧ inds.shape = vals.shape ∧
    dim inds.shape (if isSpec then 1 else 0) = n ∧ ancAttrsOk inds vals isSpec = true := by
  obtain ⟨si, sv, li, lv, ui, uv, rfl, rfl, h2, rfl, rfl, rfl, hl, hn, hc⟩ := h
  refine ⟨rfl, rfl, rfl, rfl, h2, h2, rfl, hn, ?_⟩
  simp only [ancAttrsOk, Link.labels, Link.unitsA, Link.shape]
  simp [hl, hc]

/-- The Main-dataset test returns `True` exactly when all structural rules hold — for EVERY descriptor:
    any object kind, rank, missing / mistyped quantity or units, each of the four links missing, not a
    reference, dangling, to a group, or to a dataset of any rank / shape with or without labels / units.
    (The model is a total boolean function: no descriptor makes it raise.) -/
theorem total_and_exact (d : Desc) : checkIfMain d = true ↔ MainRules d := by
  constructor
  · intro h
    unfold checkIfMain at h
    split at h
    · cases h
    split at h
    · cases h
    split at h
    · cases h
    split at h
    · cases h
    split at h
    · cases h
    split at h
    · cases h
    split at h
    · cases h
    split at h
    · cases h
    rename_i c1 c2 c3 c4 c5 c6 c7 c8
    simp at c1 c2 c3 c4 c5 c6 c7 c8
    refine ⟨c1.1, c1.2, c4.1, c4.2, ?_, ?_⟩
    · apply pair_of_ok _ _ _ _ c3.1.1.1 c3.1.1.2 c5.1 c6.1.1.symm _ c8
      simp only [Bool.false_eq_true, if_false]
      exact c6.2
    · apply pair_of_ok _ _ _ _ c3.1.2 c3.2 c5.2.2.1 c7.1.1 _ h
      simp only [if_true]
      exact c7.1.2
  · rintro ⟨h1, h2, h3, h4, hp, hs⟩
    obtain ⟨p1, p2, p3, p4, p5, p6, p7, p8, p9⟩ := ok_of_pair _ _ _ _ hp
    obtain ⟨s1, s2, s3, s4, s5, s6, s7, s8, s9⟩ := ok_of_pair _ _ _ _ hs
    simp only [Bool.false_eq_true, if_false] at p8
    simp only [if_true] at s8
    unfold checkIfMain
    simp [h1, h2, h3, h4, p1, p2, p3, p4, p5, p6, s1, s2, s3, s4, s5, s6, p9, s9]
    refine ⟨⟨⟨p7.symm, ?_⟩, p8⟩, ⟨⟨s7, s8⟩, ?_⟩⟩
    · rw [← p7]; exact p8
    · rw [← s7]; exact s8

/-- The dataset wrapper can be constructed exactly for those objects, `TypeError` otherwise. -/
theorem wrapper_gate (d : Desc) :
    (wrap d = .ok () ↔ MainRules d) ∧ (wrap d ≠ .ok () → wrap d = .error .typeErr) := by
  unfold wrap
  constructor
  · rw [← total_and_exact]
    by_cases h : checkIfMain d = true <;> simp [h]
  · by_cases h : checkIfMain d = true <;> simp [h]

/-- The recursive search returns exactly the valid Main datasets of a tree. -/
theorem get_all_main_exact (tree : List (String × Desc)) (name : String) :
    name ∈ getAllMain tree ↔ ∃ d, (name, d) ∈ tree ∧ MainRules d := by
  unfold getAllMain
  simp only [List.mem_map, List.mem_filter]
  constructor
  · rintro ⟨⟨n, d⟩, ⟨hm, hc⟩, rfl⟩
    exact ⟨d, hm, (total_and_exact d).mp hc⟩
  · rintro ⟨d, hm, hr⟩
    exact ⟨(name, d), ⟨hm, (total_and_exact d).mpr hr⟩, rfl⟩

def validDesc : Desc :=
  { isDataset := true, shape := [6, 4], quantity := .str, units := .str,
    pi := .toDataset [6, 2] (some ["X", "Y"]) (some ["m", "m"]),
    pv := .toDataset [6, 2] (some ["X", "Y"]) (some ["m", "m"]),
    si := .toDataset [1, 4] (some ["B"]) (some ["V"]),
    sv := .toDataset [1, 4] (some ["B"]) (some ["V"]) }

example : checkIfMain validDesc = true := by decide
example : checkIfMain { validDesc with pv := .toGroup } = false := by decide
example : checkIfMain { validDesc with si := .toDataset [4] (some ["B"]) (some ["V"]) } = false := by decide
example : checkIfMain { validDesc with sv := .toDataset [1, 4] none (some ["V"]) } = false := by decide

end Usid.C06
