import Usid.Proofs.Cartesian
/-! C07 — slicing returns exactly the selected elements, or refuses explicitly. -/
namespace Usid.C07
open Usid Usid.Slice Usid.Reshape

/-- The rows (columns) returned by the 2-D path are exactly those whose ancillary indices fall in the
    selection of EVERY dimension of that side, listed once each in increasing (original) order. -/
theorem rows_exact (inds : List (List Nat)) (sels : List (List Nat)) :
    (∀ r, r ∈ selectedRows inds sels ↔
      r < inds.length ∧ ∀ d, d < sels.length → (inds.getD r []).getD d 0 ∈ sels.getD d []) ∧
    (selectedRows inds sels).Pairwise (· < ·) := by
  constructor
  · intro r
    unfold selectedRows
    simp only [List.mem_filter, List.mem_range, List.all_eq_true, List.contains_iff_mem]
  · unfold selectedRows
    exact (List.pairwise_lt_range).filter _

variable {α : Type} [Inhabited α]

/-- The eager post-processing (`np.squeeze`, `np.atleast_2d`, orientation fix-up) leaves every non-empty
    2-D result exactly as it is — shape (rows, columns) and element order: single rows, single columns,
    single elements AND square results.  Hence eager and lazy results agree. -/
theorem eager_fixup_identity (a : NDArr α) (r c : Nat) (hs : a.shape = [r, c]) (hr : 1 ≤ r) (hc : 1 ≤ c) :
    eagerFixup a = a := by
  obtain ⟨shape, flat⟩ := a
  simp only at hs
  subst hs
  unfold eagerFixup
  by_cases h1 : r = 1 <;> by_cases h2 : c = 1
  · subst h1; subst h2; simp [List.filter]
  · subst h1
    have : (c != 1) = true := by simpa using h2
    simp [List.filter, this]
  · subst h2
    have : (r != 1) = true := by simpa using h1
    simp [List.filter, this, h1]
  · have e1 : (r != 1) = true := by simpa using h1
    have e2 : (c != 1) = true := by simpa using h2
    simp [List.filter, e1, e2]

theorem slice2D_lazy_eq_eager (main : NDArr α) (posInds specIndsT : List (List Nat)) (posLabs specLabs : List String)
    (posSizes specSizes : List Nat) (sd : SliceDict) (rows cols : List Nat)
    (h : posSpecSlices posInds specIndsT posLabs specLabs posSizes specSizes sd = .ok (rows, cols))
    (hr : rows ≠ []) (hc : cols ≠ []) :
    slice2D main posInds specIndsT posLabs specLabs posSizes specSizes sd false =
    slice2D main posInds specIndsT posLabs specLabs posSizes specSizes sd true := by
  unfold slice2D
  simp only [h, bind, Except.bind, pure, Except.pure, if_true, Bool.false_eq_true, if_false]
  congr 1
  apply eager_fixup_identity _ rows.length cols.length rfl
  · exact List.length_pos_iff.mpr hr
  · exact List.length_pos_iff.mpr hc

/-- Requests the 2-D path refuses: a negative index (ValueError), an index beyond the dimension
    (IndexError), an empty selection (ValueError), a wrongly typed selector (TypeError), an unknown label
    (KeyError) — in each case no result is produced. -/
theorem rejections_2d (size : Nat) :
    (∀ i : Int, i < 0 → expandSel size (.int i) = .error .valueErr) ∧
    (∀ i : Int, 0 ≤ i → (size : Int) ≤ i → expandSel size (.int i) = .error .indexErr) ∧
    (∀ l : List Int, (∃ i ∈ l, i < 0) → expandSel size (.list l) = .error .valueErr) ∧
    (∀ l : List Int, l ≠ [] → (∀ i ∈ l, 0 ≤ i) → (∃ i ∈ l, (size : Int) ≤ i) → expandSel size (.list l) = .error .indexErr) ∧
    expandSel size (.list []) = .error .valueErr ∧
    expandSel size .other = .error .typeErr ∧
    (∀ (labels : List String) (sd : SliceDict) (k : String) (v : Sel), (k, v) ∈ sd → k ∉ labels →
      (∀ kv ∈ sd, kv.2 ≠ Sel.other) → validate labels sd = .error .keyErr) := by
  refine ⟨?_, ?_, ?_, ?_, by simp [expandSel], rfl, ?_⟩
  · intro i hi; simp [expandSel, hi]
  · intro i h0 hs
    have : ¬ i < 0 := by omega
    simp [expandSel, this, hs]
  · rintro l ⟨i, hi, hneg⟩
    have : l.any (· < 0) = true := List.any_eq_true.mpr ⟨i, hi, by simpa using hneg⟩
    simp [expandSel, this]
  · rintro l hne hpos ⟨i, hi, hge⟩
    have h1 : l.isEmpty = false := by cases l <;> simp_all
    have h2 : l.any (· < 0) = false := by
      rw [List.any_eq_false]; intro x hx; have := hpos x hx; simp; omega
    have h3 : l.any (· ≥ (size : Int)) = true := List.any_eq_true.mpr ⟨i, hi, by simpa using hge⟩
    simp [expandSel, h1, h2, h3]
  · intro labels sd k v hm hk hno
    induction sd with
    | nil => simp at hm
    | cons kv rest ih =>
      unfold validate
      by_cases hl : labels.contains kv.1 = true
      · have hnot : kv.2 ≠ Sel.other := hno kv List.mem_cons_self
        simp only [hl, Bool.not_true, Bool.false_eq_true, if_false]
        have hrest : validate labels rest = .error .keyErr := by
          rcases List.mem_cons.mp hm with e | e
          · rw [← e] at hl; simp at hl; exact absurd hl hk
          · exact ih e (fun x hx => hno x (List.mem_cons_of_mem _ hx))
        cases hkv : kv.2 <;> simp_all
      · have hl' : labels.contains kv.1 = false := by simpa using hl
        simp only [hl', Bool.not_false, if_true]

/-- The N-D path refuses two or more index lists (an "nd fancy indexing" request) with
    NotImplementedError instead of returning rearranged data. -/
theorem two_lists_refused (view : NDArr α) (labels : List String) (sd : SliceDict)
    (hv : validate labels sd = .ok ())
    (h2 : 1 < ((labels.map (fun lab => (sd.lookup lab).getD (Sel.slice none none none))).filter
      (fun s => match s with | .list _ => true | _ => false)).length) :
    sliceND view labels sd = .error .notImpl := by
  unfold sliceND
  simp only [hv, bind, Except.bind]
  simp only [throw, throwThe, MonadExceptOf.throw]
  split
  · rfl
  · rename_i h; exact absurd h2 h

/-! ### element-level theorems -/

theorem get2 (a : NDArr α) (n m r c : Nat) (hs : a.shape = [n, m]) : a.get [r, c] = a.flat.getD (r * m + c) default := by
  unfold NDArr.get; rw [hs]; simp [ravelC]

/-- **2-D slicing returns exactly the selected elements.**  Whenever the request is accepted, the result
    has one row per selected position and one column per selected spectroscopic point (both in increasing
    order, see `rows_exact`) and its element (i, j) is `main[rows[i], cols[j]]`. -/
theorem slice2D_elements (main : NDArr α) (n m : Nat) (hshape : main.shape = [n, m])
    (posInds specIndsT : List (List Nat)) (posLabs specLabs : List String) (posSizes specSizes : List Nat)
    (sd : SliceDict) (rows cols : List Nat)
    (h : posSpecSlices posInds specIndsT posLabs specLabs posSizes specSizes sd = .ok (rows, cols)) :
    ∃ out, slice2D main posInds specIndsT posLabs specLabs posSizes specSizes sd true = .ok out ∧
      out.shape = [rows.length, cols.length] ∧
      ∀ i j (hi : i < rows.length) (hj : j < cols.length), out.get [i, j] = main.get [rows[i], cols[j]] := by
  unfold slice2D
  simp only [h, bind, Except.bind, pure, Except.pure, if_true]
  refine ⟨_, rfl, rfl, ?_⟩
  intro i j hi hj
  rw [get2 _ rows.length cols.length i j rfl, get2 main n m _ _ hshape, hshape]
  simp only [List.getD_cons_succ, List.getD_cons_zero]
  rw [List.getD_eq_getElem?_getD,
    flatMap_uniform_get (fun r => cols.map (fun c => main.flat.getD (r * m + c) default)) cols.length rows
      (fun x _ => by simp) i j hi hj]
  simp [List.getElem?_eq_getElem hj]

/-- the selections behind the returned rows / columns: for every dimension either the whole range (not
    mentioned in the dictionary) or the accepted expansion of its selector -/
theorem posSpecSlices_selected (posInds specIndsT : List (List Nat)) (posLabs specLabs : List String)
    (posSizes specSizes : List Nat) (sd : SliceDict) (rows cols : List Nat)
    (h : posSpecSlices posInds specIndsT posLabs specLabs posSizes specSizes sd = .ok (rows, cols)) :
    ∃ ps ss, rows = selectedRows posInds ps ∧ cols = selectedRows specIndsT ss ∧
      ps.length = posLabs.length ∧ ss.length = specLabs.length ∧
      (∀ d (hd : d < posLabs.length) (h2 : d < ps.length), match sd.lookup (posLabs.getD d "") with
        | none => ps[d] = List.range (posSizes.getD d 0)
        | some s => expandSel (posSizes.getD d 0) s = .ok ps[d]) ∧
      (∀ d (hd : d < specLabs.length) (h2 : d < ss.length), match sd.lookup (specLabs.getD d "") with
        | none => ss[d] = List.range (specSizes.getD d 0)
        | some s => expandSel (specSizes.getD d 0) s = .ok ss[d]) := by
  unfold posSpecSlices at h
  simp only [bind, Except.bind, pure, Except.pure] at h
  split at h
  · cases h
  · split at h
    · cases h
    · split at h
      · cases h
      · rename_i ps hps
        split at h
        · cases h
        · rename_i ss hss
          injection h with h
          injection h with h1 h2
          obtain ⟨hl1, hi1⟩ := mapME_ok _ _ ps hps
          obtain ⟨hl2, hi2⟩ := mapME_ok _ _ ss hss
          refine ⟨ps, ss, h1.symm, h2.symm, by simpa using hl1, by simpa using hl2, ?_, ?_⟩
          · intro d hd h2'
            have := hi1 d (by simpa using hd) h2'
            simp only [List.getElem_range] at this
            split at this
            · rename_i hlk; simp only [hlk]; injection this with this; exact this.symm
            · rename_i s hlk; simp only [hlk]; exact this
          · intro d hd h2'
            have := hi2 d (by simpa using hd) h2'
            simp only [List.getElem_range] at this
            split at this
            · rename_i hlk; simp only [hlk]; injection this with this; exact this.symm
            · rename_i s hlk; simp only [hlk]; exact this

/-- **N-D slicing returns exactly the selected elements.**  Whenever the request is accepted there are
    per-axis index lists `kept` (one per axis of the view: the single index of an integer selector, the
    indices of a slice, the normalised entries of an index list) such that the result holds, in C order,
    the view's element at every combination of the kept indices; integer axes are dropped from the shape. -/
theorem sliceND_elements (view : NDArr α) (labels : List String) (sd : SliceDict) (out : NDArr α)
    (h : sliceND view labels sd = .ok out) :
    ∃ per : List (Option Nat × List Nat), per.length = labels.length ∧
      (∀ ax (h1 : ax < labels.length) (h2 : ax < per.length),
        axisSelect (view.shape.getD ax 0) ((sd.lookup labels[ax]).getD (Sel.slice none none none)) = .ok per[ax]) ∧
      out.shape = (per.filter (fun p => p.1.isNone)).map (fun p => p.2.length) ∧
      out.flat.length = ((per.map (·.2)).map List.length).prod ∧
      ∀ js, InBounds ((per.map (·.2)).map List.length) js →
        out.flat[ravelC ((per.map (·.2)).map List.length) js]? = some (view.get (pickIdx (per.map (·.2)) js)) := by
  unfold sliceND at h
  simp only [bind, Except.bind, pure, Except.pure] at h
  split at h
  · cases h
  · split at h
    · simp [throw, throwThe, MonadExceptOf.throw] at h
    · split at h
      · cases h
      · rename_i per hper
        injection h with h
        obtain ⟨hl, hi⟩ := mapME_ok _ _ per hper
        refine ⟨per, by simpa using hl, ?_, by rw [← h], ?_, ?_⟩
        · intro ax h1 h2
          have := hi ax (by simpa using h1) h2
          simp only [List.getElem_range] at this
          rw [← this]
          congr 1
          simp [List.getD_eq_getElem?_getD, List.getElem?_eq_getElem h1]
        · rw [← h]; simp only [List.length_map]; exact cartesian_length' _
        · intro js hb
          rw [← h]
          simp only [List.getElem?_map, cartesian_get _ js hb, Option.map_some]

end Usid.C07
