import Usid.Proofs.Anc
/-! C08 — generated ancillary matrices are exact Cartesian products in documented order. -/
namespace Usid.C08
open Usid Usid.Anc

/-- `build_ind_val_matrices`: for any number of dimensions, any sizes ≥ 1 and any values, entry `(d, c)` of
    the indices matrix is the mixed-radix digit `c / ∏_{e<d} len_e % len_d` (first supplied dimension
    fastest) and the values matrix holds `value_d[index_d]` at every entry. -/
theorem indices_formula (uv : List (List Int)) (d c : Nat) (hd : d < uv.length)
    (hpos : ∀ v ∈ uv, 0 < v.length) (hc : c < (uv.map List.length).prod) :
    ∃ ri rv, (buildIndVal uv).1[d]? = some ri ∧ (buildIndVal uv).2[d]? = some rv ∧
      ri[c]? = some (c / repSize (uv.map List.length) d % (uv[d]).length) ∧
      rv[c]? = (uv[d])[c / repSize (uv.map List.length) d % (uv[d]).length]? := by
  unfold buildIndVal
  have hl : (uv.map (fun v => List.range v.length)).map List.length = uv.map List.length := by
    simp [List.map_map, Function.comp_def]
  obtain ⟨ri, h1, h2⟩ := buildRows_get (uv.map (fun v => List.range v.length)) d c (by simpa using hd)
    (by intro v hv; obtain ⟨w, hw, rfl⟩ := List.mem_map.mp hv; simpa using hpos w hw) (by rw [hl]; exact hc)
  obtain ⟨rv, h3, h4⟩ := buildRows_get uv d c hd hpos hc
  refine ⟨ri, rv, h1, h3, ?_, h4⟩
  rw [h2, hl]
  simp only [List.getElem_map, List.length_range]
  rw [List.getElem?_range]
  exact Nat.mod_lt _ (hpos _ (List.getElem_mem hd))

/-- Every combination of per-dimension indices occurs exactly once: the column → digit-tuple map is
    `digitsOf`, which is injective on `[0, ∏ len)` and onto all tuples with `digit_d < len_d`. -/
theorem each_combination_once (lengths : List Nat) :
    (∀ c d, d < lengths.length → (digitsOf lengths c)[d]? = some (c / repSize lengths d % lengths[d]!)) ∧
    (∀ c c', c < lengths.prod → c' < lengths.prod → digitsOf lengths c = digitsOf lengths c' → c = c') ∧
    (∀ ds : List Nat, ds.length = lengths.length → (∀ d (h : d < ds.length), ds[d] < lengths[d]!) →
      ∃ c, c < lengths.prod ∧ digitsOf lengths c = ds) :=
  ⟨fun c d hd => digitsOf_get lengths c d hd, digitsOf_inj lengths, digitsOf_surj lengths⟩

/-- Position matrices are the transposes of the spectroscopic ones. -/
theorem position_is_transpose {α : Type} [Inhabited α] (rows : List (List α)) (r : List α) (c d : Nat)
    (hr : rows[0]? = some r) (hc : c < r.length) (hd : d < rows.length) :
    ((transpose rows)[c]?.bind (·[d]?)) = some ((rows[d]).getD c default) := by
  cases rows with
  | nil => simp at hd
  | cons r0 rest =>
    simp only [List.getElem?_cons_zero, Option.some.injEq] at hr
    subst hr
    simp only [transpose]
    rw [List.getElem?_map, List.getElem?_range hc]
    simp only [Option.map_some, Option.bind_some, List.getElem?_map, List.getElem?_eq_getElem hd,
      Option.map_some]

theorem take_reverse_prod (l : List Nat) (j : Nat) (hj : j < l.length) :
    (l.reverse.take (l.length - 1 - j)).prod = (l.drop (j + 1)).prod := by
  have : l.reverse.take (l.length - 1 - j) = (l.drop (j + 1)).reverse := by
    rw [List.reverse_drop]
    congr 1
    omega
  rw [this]
  exact (List.reverse_perm _).prod_nat

/-- `write_ind_val_dsets`, both ordering flags: the stored dimensions run slowest → fastest with the
    caller's fastest dimension LAST, and stored row / column `j` carries the label, the unit, the indices
    and the values of one and the same dimension `D_j` (also when sizes or units coincide). -/
theorem written_slowest_first (dims : List Dim) (s2f : Bool) (j c : Nat)
    (hpos : ∀ dm ∈ dims, 0 < dm.values.length)
    (D : List Dim) (hD : D = if s2f then dims else dims.reverse) (hj : j < D.length)
    (hc : c < (D.map (fun dm => dm.values.length)).prod) :
    (writeIndVal dims s2f).labels = D.map (·.name) ∧ (writeIndVal dims s2f).units = D.map (·.units) ∧
    ∃ ri rv, (writeIndVal dims s2f).indices[j]? = some ri ∧ (writeIndVal dims s2f).values[j]? = some rv ∧
      ri[c]? = some (c / ((D.drop (j + 1)).map (fun dm => dm.values.length)).prod % (D[j]).values.length) ∧
      rv[c]? = (D[j]).values[c / ((D.drop (j + 1)).map (fun dm => dm.values.length)).prod % (D[j]).values.length]? := by
  have hf : (if s2f then dims.reverse else dims) = D.reverse := by
    cases s2f <;> simp [hD]
  have hDmem : ∀ dm ∈ D, 0 < dm.values.length := by
    intro dm hdm; apply hpos
    cases s2f <;> simp [hD] at hdm <;> exact hdm
  obtain ⟨uv, huv⟩ : ∃ uv, uv = D.reverse.map (·.values) := ⟨_, rfl⟩
  have hw : writeIndVal dims s2f =
      ⟨D.map (·.name), D.map (·.units), (buildIndVal uv).1.reverse, (buildIndVal uv).2.reverse⟩ := by
    unfold writeIndVal
    simp only [hf, List.reverse_reverse, huv]
  rw [hw]
  refine ⟨rfl, rfl, ?_⟩
  have hk : uv.length = D.length := by simp [huv]
  have hd' : D.length - 1 - j < uv.length := by omega
  have huvpos : ∀ v ∈ uv, 0 < v.length := by
    intro v hv
    rw [huv] at hv
    obtain ⟨dm, hdm, rfl⟩ := List.mem_map.mp hv
    exact hDmem dm (List.mem_reverse.mp hdm)
  have hlen : uv.map List.length = (D.map (fun dm => dm.values.length)).reverse := by
    simp [huv, List.map_reverse, List.map_map, Function.comp_def]
  have hc' : c < (uv.map List.length).prod := by
    rw [hlen, (List.reverse_perm _).prod_nat]; exact hc
  obtain ⟨ri, rv, h1, h2, h3, h4⟩ := indices_formula uv (D.length - 1 - j) c hd' huvpos hc'
  have hget : uv[D.length - 1 - j] = (D[j]).values := by
    subst huv
    simp only [List.getElem_map, List.getElem_reverse]
    congr 2; omega
  have hrep : repSize (uv.map List.length) (D.length - 1 - j) =
      ((D.drop (j + 1)).map (fun dm => dm.values.length)).prod := by
    unfold repSize
    rw [hlen]
    have := take_reverse_prod (D.map (fun dm => dm.values.length)) j (by simpa using hj)
    simp only [List.length_map] at this
    rw [this, List.map_drop]
  have hi1 : (buildIndVal uv).1.length = D.length := by simp [buildIndVal, buildRows, hk]
  have hi2 : (buildIndVal uv).2.length = D.length := by simp [buildIndVal, buildRows, hk]
  refine ⟨ri, rv, ?_, ?_, ?_, ?_⟩
  · show (buildIndVal uv).1.reverse[j]? = some ri
    rw [List.getElem?_reverse (by rw [hi1]; exact hj), hi1]; exact h1
  · show (buildIndVal uv).2.reverse[j]? = some rv
    rw [List.getElem?_reverse (by rw [hi2]; exact hj), hi2]; exact h2
  · rw [h3, hrep, hget]
  · rw [h4, hrep, hget]

/-- `make_indices_matrix`: sizes all ≥ 2 give the same Cartesian-product rows; the single list `[1]` gives
    one zero; every other list containing an entry < 2 (and the empty list) is refused with ValueError —
    no matrix is produced. -/
theorem make_indices_matrix (steps : List Nat) :
    (steps = [] → makeIndicesMatrix steps = .error .valueErr) ∧
    (steps = [1] → makeIndicesMatrix steps = .ok [[0]]) ∧
    (steps ≠ [] → steps ≠ [1] → (∃ s ∈ steps, s < 2) → makeIndicesMatrix steps = .error .valueErr) ∧
    (steps ≠ [] → (∀ s ∈ steps, 2 ≤ s) → ∃ rows, makeIndicesMatrix steps = .ok rows ∧ rows.length = steps.length ∧
      ∀ i c (hi : i < steps.length), c < steps.prod →
        (rows[i]?.bind (·[c]?)) = some (c / (steps.take i).prod % steps[i])) := by
  refine ⟨by intro h; simp [makeIndicesMatrix, h], by intro h; simp [makeIndicesMatrix, h], ?_, ?_⟩
  · intro h1 h2 ⟨s, hs, hlt⟩
    have : steps.any (· < 2) = true := List.any_eq_true.mpr ⟨s, hs, by simpa using hlt⟩
    simp [makeIndicesMatrix, h1, h2, this]
  · intro h1 hall
    have h2 : steps ≠ [1] := by
      intro h; rw [h] at hall; have := hall 1 (by simp); omega
    have h3 : steps.any (· < 2) = false := by
      rw [List.any_eq_false]; intro s hs; have := hall s hs; simp; omega
    refine ⟨(List.range steps.length).map (fun i =>
      tile ((List.range (steps.take (i + 1)).prod).map (· / (steps.take i).prod)) (steps.drop (i + 1)).prod),
      by simp [makeIndicesMatrix, h1, h2, h3], by simp, ?_⟩
    intro i c hi hc
    rw [List.getElem?_map, List.getElem?_range hi]
    simp only [Option.map_some, Option.bind_some]
    have hpos : ∀ x ∈ steps, 0 < x := fun x hx => by have := hall x hx; omega
    have hp2 : 0 < (steps.take i).prod := prod_pos_of_pos _ (fun x hx => hpos x ((List.take_sublist _ _).subset hx))
    have hsplit := prod_split steps i hi
    have e1 : (steps.take (i + 1)).prod = (steps.take i).prod * steps[i] := by
      rw [List.take_succ_eq_append_getElem hi, List.prod_append]; simp
    have hlen : ((List.range (steps.take (i + 1)).prod).map (· / (steps.take i).prod)).length =
        (steps.take i).prod * steps[i] := by simp [e1]
    rw [getElem?_tile _ _ _ (by rw [hlen, ← hsplit]; exact hc), hlen]
    rw [List.getElem?_map, List.getElem?_range (by rw [e1]; exact Nat.mod_lt _ (Nat.mul_pos hp2 (hpos _ (List.getElem_mem hi))))]
    simp only [Option.map_some]
    congr 1
    exact Nat.mod_mul_right_div_self c _ _

example : buildIndVal [[10, 20], [1, 2, 3]] =
    ([[0, 1, 0, 1, 0, 1], [0, 0, 1, 1, 2, 2]], [[10, 20, 10, 20, 10, 20], [1, 1, 2, 2, 3, 3]]) := by decide
example : (writeIndVal [⟨"X", "m", [10, 20]⟩, ⟨"Y", "s", [1, 2, 3]⟩] false).labels = ["Y", "X"] ∧
    (writeIndVal [⟨"X", "m", [10, 20]⟩, ⟨"Y", "s", [1, 2, 3]⟩] false).indices = [[0, 0, 1, 1, 2, 2], [0, 1, 0, 1, 0, 1]] ∧
    (writeIndVal [⟨"Y", "s", [1, 2, 3]⟩, ⟨"X", "m", [10, 20]⟩] true) =
      (writeIndVal [⟨"X", "m", [10, 20]⟩, ⟨"Y", "s", [1, 2, 3]⟩] false) := by decide

end Usid.C08
