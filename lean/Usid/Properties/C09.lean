import Usid.Proofs.Dims
import Usid.Proofs.UnitValues
import Usid.Proofs.Rebuild
/-! C09 — sizes, change-rate order and unit values are recovered from any regular grid. -/
namespace Usid.C09
open Usid Usid.Grid Usid.Dims

/-- size of dimension id `d` (storage order) -/
def sizeFn (sizes : List Nat) : Nat → Nat := fun d => sizes.getD d 1

/-- the k × N index matrix (spectroscopic orientation, rows in STORAGE order) of the regular grid with the
    given sizes whose dimensions vary in the order `rate` (fastest first) -/
def gridMatrix (sizes rate : List Nat) : List (List Nat) :=
  (List.range sizes.length).map (gridRow (sizeFn sizes) rate)

/-- `rate` is a storage permutation of the dimensions and every size is ≥ 1 -/
def ValidGrid (sizes rate : List Nat) : Prop := rate.Perm (List.range sizes.length) ∧ ∀ s ∈ sizes, 1 ≤ s

theorem valid_facts (sizes rate : List Nat) (h : ValidGrid sizes rate) :
    rate.Nodup ∧ (∀ e ∈ rate, e < sizes.length ∧ 1 ≤ sizeFn sizes e) ∧
    (∀ d, d < sizes.length → d ∈ rate) := by
  refine ⟨h.1.nodup_iff.mpr List.nodup_range, ?_, ?_⟩
  · intro e he
    have hlt : e < sizes.length := List.mem_range.mp (h.1.subset he)
    refine ⟨hlt, ?_⟩
    unfold sizeFn
    rw [List.getD_eq_getElem?_getD, List.getElem?_eq_getElem hlt]
    exact h.2 _ (List.getElem_mem hlt)
  · intro d hd
    exact h.1.symm.subset (List.mem_range.mpr hd)

/-- Change count of every dimension of every regular grid, in every storage permutation:
    `count · stride = N` for a dimension of size > 1 and `count = 0` for a size-1 dimension (the wrap-around
    comparison of the Python expression included). -/
theorem change_count (sizes rate : List Nat) (h : ValidGrid sizes rate) (d : Nat) (hd : d < sizes.length) :
    changeCountRow (gridRow (sizeFn sizes) rate d) * strideBefore (sizeFn sizes) rate d =
      if 1 < sizeFn sizes d then npoints (sizeFn sizes) rate else 0 := by
  obtain ⟨hnd, hpos, hall⟩ := valid_facts sizes rate h
  obtain ⟨pre, post, e, hpre⟩ := split_of_mem rate d (hall d hd)
  have hc := countOf_split (sizeFn sizes) rate pre post d e hpre (fun x hx => (hpos x hx).2)
  have : changeCountRow (gridRow (sizeFn sizes) rate d) = countOf (sizeFn sizes) rate d := rfl
  rw [this, hc]
  subst e
  rw [stride_split _ pre post d hpre, npoints_split]
  by_cases hs : 1 < sizeFn sizes d
  · simp only [hs, if_true]
    simp only [Nat.mul_comm, Nat.mul_left_comm]
  · simp [hs]

/-- Change counts are strictly decreasing along the true rate order among dimensions of size > 1
    (so ties happen only among size-1 dimensions, whose count is 0). -/
theorem counts_strict (sizes rate : List Nat) (h : ValidGrid sizes rate) :
    rate.Pairwise (fun a b => 1 < sizeFn sizes a → 1 < sizeFn sizes b →
      countOf (sizeFn sizes) rate b < countOf (sizeFn sizes) rate a) :=
  Grid.counts_strict _ rate (valid_facts sizes rate h).1 (fun e he => ((valid_facts sizes rate h).2.1 e he).2)

theorem gridMatrix_orient (sizes rate : List Nat) (hk : sizes.length ≤ npoints (sizeFn sizes) rate) :
    orient (gridMatrix sizes rate) = gridMatrix sizes rate := by
  unfold orient
  have : ¬ (gridMatrix sizes rate).length > ncols (gridMatrix sizes rate) := by
    unfold gridMatrix ncols
    cases hs : sizes with
    | nil => simp
    | cons s ss =>
      simp only [List.length_cons, List.range_succ_eq_map, List.map_cons, List.headD_cons, gridRow,
        List.length_map, List.length_range]
      rw [hs] at hk; simpa using hk
  simp [this]

/-- The reported size of every dimension is its true size (= its number of distinct indices), for every
    regular grid in every storage permutation with at most as many dimensions as points. -/
theorem sizes (sizes rate : List Nat) (h : ValidGrid sizes rate)
    (hk : sizes.length ≤ npoints (sizeFn sizes) rate) :
    getDimensionality (gridMatrix sizes rate) none = .ok sizes := by
  obtain ⟨hnd, hpos, hall⟩ := valid_facts sizes rate h
  unfold getDimensionality
  rw [gridMatrix_orient sizes rate hk]
  simp only [Except.ok.injEq]
  unfold gridMatrix
  rw [List.map_map]
  apply List.ext_getElem?
  intro d
  by_cases hd : d < sizes.length
  · rw [List.getElem?_map, List.getElem?_range hd, List.getElem?_eq_getElem hd]
    simp only [Option.map_some, Function.comp, Option.some.injEq]
    obtain ⟨pre, post, e, hpre⟩ := split_of_mem rate d (hall d hd)
    subst e
    rw [distinct_gridRow _ pre post d hpre (fun x hx => (hpos x hx).2)]
    simp [sizeFn, List.getD_eq_getElem?_getD, List.getElem?_eq_getElem hd]
  · rw [List.getElem?_eq_none (by simpa using hd), List.getElem?_eq_none (by simpa using hd)]

theorem counts_getD (sizes rate : List Nat) (d : Nat) (hd : d < sizes.length) :
    ((gridMatrix sizes rate).map changeCountRow).getD d 0 = countOf (sizeFn sizes) rate d := by
  unfold gridMatrix
  rw [List.map_map, List.getD_eq_getElem?_getD, List.getElem?_map, List.getElem?_range hd]
  rfl

/-- The same facts for the sort applied directly to the change counts of the rows (no orientation step) -/
theorem argsort_counts_is_rate (sizes rate : List Nat) (h : ValidGrid sizes rate) :
    let ord := argsortRev ((gridMatrix sizes rate).map changeCountRow)
    ord.Perm rate ∧
    (∀ d, d < sizes.length → 1 < sizeFn sizes d →
      strideBefore (sizeFn sizes) ord d = strideBefore (sizeFn sizes) rate d) ∧
    ord.filter (fun d => decide (1 < sizeFn sizes d)) = rate.filter (fun d => decide (1 < sizeFn sizes d)) := by
  obtain ⟨hnd, hpos, hall⟩ := valid_facts sizes rate h
  intro ord
  have hord : ord = argsortRev ((gridMatrix sizes rate).map changeCountRow) := rfl
  have hlen : ((gridMatrix sizes rate).map changeCountRow).length = sizes.length := by simp [gridMatrix]
  have hperm : ord.Perm rate := by
    rw [hord]
    have := argsortRev_perm ((gridMatrix sizes rate).map changeCountRow)
    rw [hlen] at this
    exact this.trans h.1.symm
  have hsorted : ord.Pairwise (fun a b => countOf (sizeFn sizes) rate b ≤ countOf (sizeFn sizes) rate a) := by
    have hs := argsortRev_sorted ((gridMatrix sizes rate).map changeCountRow)
    rw [← hord] at hs
    apply List.Pairwise.imp_of_mem _ hs
    intro a b ha hb hab
    have ha' := (hpos a (hperm.subset ha)).1
    have hb' := (hpos b (hperm.subset hb)).1
    rw [counts_getD sizes rate a ha', counts_getD sizes rate b hb'] at hab
    exact hab
  have hstrict := counts_strict sizes rate h
  refine ⟨hperm, ?_, ?_⟩
  · intro d hd hbig
    exact stride_eq_of_sorted (sizeFn sizes) (countOf (sizeFn sizes) rate) rate ord hperm hnd
      (fun e he => (hpos e he).2) hstrict hsorted d (hall d hd) hbig
  · apply List.Perm.eq_of_pairwise (le := fun a b => countOf (sizeFn sizes) rate b ≤ countOf (sizeFn sizes) rate a)
    · intro a b ha hb h1 h2
      have ha' := List.mem_filter.mp ha
      have hb' := List.mem_filter.mp hb
      have hbig_a : 1 < sizeFn sizes a := by simpa using ha'.2
      have hbig_b : 1 < sizeFn sizes b := by simpa using hb'.2
      have ha_r : a ∈ rate := hperm.subset ha'.1
      apply Classical.byContradiction
      intro hne
      by_cases hpre : a ∈ rate.takeWhile (fun e => e != b)
      · have := before_rel rate b a hstrict hb'.1 hpre hbig_a hbig_b
        omega
      · have := after_rel rate b a hstrict hb'.1 ha_r hne hpre hbig_b hbig_a
        omega
    · exact hsorted.filter _
    · have hf := hstrict.filter (fun d => decide (1 < sizeFn sizes d))
      apply List.Pairwise.imp_of_mem _ hf
      intro a b ha hb hab
      have ha' := (List.mem_filter.mp ha).2
      have hb' := (List.mem_filter.mp hb).2
      exact Nat.le_of_lt (hab (by simpa using ha') (by simpa using hb'))
    · exact hperm.filter _

/-- The reported order: a permutation of the dimensions along which the change counts never increase,
    whose strides equal the strides of the true rate order for every dimension of size > 1, and which ranks
    the dimensions of size > 1 exactly as the true rate order does (fastest → slowest).  Only size-1
    dimensions may sit elsewhere — whatever tie-breaking the sort uses. -/
theorem order_is_rate (sizes rate : List Nat) (h : ValidGrid sizes rate)
    (hk : sizes.length ≤ npoints (sizeFn sizes) rate) :
    let ord := getSortOrder (gridMatrix sizes rate)
    ord.Perm rate ∧
    (∀ d, d < sizes.length → 1 < sizeFn sizes d →
      strideBefore (sizeFn sizes) ord d = strideBefore (sizeFn sizes) rate d) ∧
    ord.filter (fun d => decide (1 < sizeFn sizes d)) = rate.filter (fun d => decide (1 < sizeFn sizes d)) := by
  have hord : getSortOrder (gridMatrix sizes rate) = argsortRev ((gridMatrix sizes rate).map changeCountRow) := by
    unfold getSortOrder; rw [gridMatrix_orient sizes rate hk]
  rw [hord]
  exact argsort_counts_is_rate sizes rate h

/-- the k × N values matrix: `value_d[index_d]` -/
def valueMatrix (sizes rate : List Nat) (values : List (List Int)) : List (List Int) :=
  (List.range sizes.length).map (fun d => (gridRow (sizeFn sizes) rate d).map (fun i => (values.getD d []).getD i 0))

/-- **Unit values.**  For every regular grid (any number of dimensions, sizes >= 1, any storage permutation)
    with distinct dimension names and, per dimension, as many reference values as its size:
    `get_unit_values` on the index and value matrices returns, for every dimension, exactly its reference
    values in index order - every guard of the statement-by-statement model ("not starting with 0",
    "non constant step sizes", ragged tiles) passes. -/
theorem unit_values (sizes rate : List Nat) (values : List (List Int)) (names : List String)
    (h : ValidGrid sizes rate) (hv : values.length = sizes.length) (hn : names.length = sizes.length) (hnd : names.Nodup)
    (hvl : ∀ d, d < sizes.length → (values.getD d []).length = sizes.getD d 1) :
    Usid.UV.getUnitValues (gridMatrix sizes rate) (valueMatrix sizes rate values) names none (some true) =
      .ok (names.zip values) := by
  obtain ⟨hndr, hpos, hall⟩ := valid_facts sizes rate h
  unfold Usid.UV.getUnitValues
  have hl1 : (gridMatrix sizes rate).length = sizes.length := by simp [gridMatrix]
  have hl2 : (valueMatrix sizes rate values).length = sizes.length := by simp [valueMatrix]
  have hc : ncols (gridMatrix sizes rate) = ((valueMatrix sizes rate values).headD []).length := by
    unfold ncols gridMatrix valueMatrix
    cases hs : sizes with
    | nil => simp
    | cons a r => simp [List.range_succ_eq_map]
  have hall' : names.all (fun nm => names.contains nm) = true := by
    rw [List.all_eq_true]; intro x hx; simpa using hx
  -- every row evaluates to its reference values
  have hrows : mapME (fun nm => Usid.UV.unitValuesRow ((gridMatrix sizes rate).getD (names.findIdx (· == nm)) [])
      ((valueMatrix sizes rate values).getD (names.findIdx (· == nm)) [])) names =
      .ok (names.map (fun nm => values.getD (names.findIdx (· == nm)) [])) := by
    apply Usid.UV.mapME_of_forall
    intro nm hnm
    have hd : names.findIdx (· == nm) < sizes.length := by
      rw [← hn]; exact List.findIdx_lt_length_of_exists ⟨nm, hnm, by simp⟩
    generalize names.findIdx (· == nm) = d at hd
    obtain ⟨pre, post, e, hpre⟩ := split_of_mem rate d (hall d hd)
    have hsz : ∀ x ∈ pre ++ d :: post, 1 ≤ sizeFn sizes x := fun x hx => (hpos x (e ▸ hx)).2
    have hrow : (gridMatrix sizes rate).getD d [] = Usid.UV.periodicRow (pre.map (sizeFn sizes)).prod (sizeFn sizes d)
        (post.map (sizeFn sizes)).prod := by
      unfold gridMatrix
      rw [List.getD_eq_getElem?_getD, List.getElem?_map, List.getElem?_range hd]
      simp only [Option.map_some, Option.getD_some]
      rw [e]; exact Usid.UV.gridRow_periodic _ pre post d hpre
    have hvrow : (valueMatrix sizes rate values).getD d [] =
        (List.range ((post.map (sizeFn sizes)).prod * ((pre.map (sizeFn sizes)).prod * sizeFn sizes d))).map
          (fun r => (values.getD d []).getD (r / (pre.map (sizeFn sizes)).prod % sizeFn sizes d) 0) := by
      unfold valueMatrix
      rw [List.getD_eq_getElem?_getD, List.getElem?_map, List.getElem?_range hd]
      simp only [Option.map_some, Option.getD_some]
      rw [e, Usid.UV.gridRow_periodic _ pre post d hpre]
      simp [Usid.UV.periodicRow, List.map_map, Function.comp_def]
    rw [hrow, hvrow]
    exact Usid.UV.unitValuesRow_periodic _ _ _ _
      (prod_pos _ pre (fun x hx => hsz x (List.mem_append_left _ hx)))
      (hsz d (List.mem_append_right _ List.mem_cons_self))
      (prod_pos _ post (fun x hx => hsz x (List.mem_append_right _ (List.mem_cons_of_mem _ hx))))
      (by rw [hvl d hd]; rfl)
  simp only [hl1, hl2, bne_self_eq_false, hc, Bool.or_self, Bool.false_eq_true, if_false, bind, Except.bind, pure, Except.pure,
    hn, Option.getD_none, hall', Bool.not_true, if_true, hrows]
  -- all names are wanted; the rows are the reference values in order
  have hvals : names.map (fun nm => values.getD (names.findIdx (· == nm)) []) = values := by
    apply List.ext_getElem
    · simp [hn, hv]
    · intro i h1 h2
      have hi : i < names.length := by simpa using h1
      simp only [List.getElem_map]
      have : names.findIdx (· == names[i]) = i := by
        have := hnd.idxOf_getElem i hi
        simpa [List.idxOf] using this
      rw [this]
      simp [List.getD_eq_getElem?_getD, List.getElem?_eq_getElem h2]
  rw [hvals]
  congr 1
  rw [List.filter_eq_self]
  intro p hp
  have := (List.of_mem_zip hp).1
  simpa using this

/-- **Rebuilding indices from values.**  For every regular grid (any number of dimensions, sizes >= 1, any
    storage permutation of the change rates) whose dimensions carry pairwise distinct reference values,
    `create_spec_inds_from_vals` applied to the values matrix returns exactly the index matrix.
    (The column loop is a mixed-radix odometer over the rows sorted by change count:
    `Rebuild.odometer_step`.) -/
theorem rebuild_indices (sizes rate : List Nat) (values : List (List Int))
    (h : ValidGrid sizes rate)
    (hvl : ∀ d, d < sizes.length → (values.getD d []).length = sizes.getD d 1 ∧ (values.getD d []).Nodup) :
    Usid.UV.createSpecIndsFromVals (valueMatrix sizes rate values) = gridMatrix sizes rate := by
  obtain ⟨hnd, hpos, hall⟩ := valid_facts sizes rate h
  by_cases hk0 : sizes.length = 0
  · have : sizes = [] := List.length_eq_zero_iff.mp hk0
    subst this
    simp [valueMatrix, gridMatrix, Usid.UV.createSpecIndsFromVals]
  obtain ⟨k', hk'⟩ : ∃ k', sizes.length = k' + 1 := ⟨sizes.length - 1, by omega⟩
  have hklen : (valueMatrix sizes rate values).length = sizes.length := by simp [valueMatrix]
  have hrow : ∀ d, d < sizes.length → (valueMatrix sizes rate values).getD d [] =
      (gridRow (sizeFn sizes) rate d).map (fun i => (values.getD d []).getD i 0) := by
    intro d hd
    simp [valueMatrix, List.getD_eq_getElem?_getD, List.getElem?_map, List.getElem?_range hd]
  have hN : ((valueMatrix sizes rate values).headD []).length = npoints (sizeFn sizes) rate := by
    unfold valueMatrix
    rw [hk', List.range_succ_eq_map]
    simp [gridRow]
  have hNpos : 0 < npoints (sizeFn sizes) rate := prod_pos _ rate (fun e he => (hpos e he).2)
  -- values are injective on the indices of a dimension
  have hinj : ∀ d, d < sizes.length → ∀ a, a < sizeFn sizes d → ∀ b, b < sizeFn sizes d →
      (values.getD d []).getD a 0 = (values.getD d []).getD b 0 → a = b := by
    intro d hd
    obtain ⟨hl, hn⟩ := hvl d hd
    generalize values.getD d [] = vl at hl hn ⊢
    intro a ha b hb e
    have hsd : sizeFn sizes d = sizes.getD d 1 := rfl
    have ha' : a < vl.length := by rw [hl, ← hsd]; exact ha
    have hb' : b < vl.length := by rw [hl, ← hsd]; exact hb
    exact (List.getD_inj ha' hb' hn).mp e
  have hgi : ∀ d, d < sizes.length → ∀ r, gridIdx (sizeFn sizes) rate r d < sizeFn sizes d := by
    intro d hd r
    unfold gridIdx
    exact Nat.mod_lt _ (hpos d (hall d hd)).2
  -- the change counts of the value rows are those of the index rows
  have hcounts : (valueMatrix sizes rate values).map Usid.UV.changeCountInt =
      (gridMatrix sizes rate).map changeCountRow := by
    unfold valueMatrix gridMatrix
    rw [List.map_map, List.map_map]
    apply List.map_congr_left
    intro d hd
    have hd' := List.mem_range.mp hd
    simp only [Function.comp]
    apply Usid.Rebuild.changeCountInt_map
    intro a ha b hb e
    obtain ⟨ra, _, rfl⟩ := List.mem_map.mp ha
    obtain ⟨rb, _, rfl⟩ := List.mem_map.mp hb
    exact hinj d hd' _ (hgi d hd' ra) _ (hgi d hd' rb) e
  obtain ⟨hperm, hstride, _⟩ := argsort_counts_is_rate sizes rate h
  generalize hordef : argsortRev ((gridMatrix sizes rate).map changeCountRow) = ord at hperm hstride
  have hndo : ord.Nodup := hperm.nodup_iff.mpr hnd
  have hordlen : ord.length = sizes.length := by
    rw [hperm.length_eq, h.1.length_eq]; simp
  have hordmem : ∀ i, i < sizes.length → ord.getD i 0 ∈ rate := by
    intro i hi
    have hi' : i < ord.length := by omega
    rw [List.getD_eq_getElem?_getD, List.getElem?_eq_getElem hi']
    exact hperm.subset (List.getElem_mem hi')
  -- sizes per sorted position
  let ss := ord.map (sizeFn sizes)
  have hsslen : ss.length = sizes.length := by simp [ss, hordlen]
  have hss1 : ∀ s ∈ ss, 1 ≤ s := by
    intro s hs
    obtain ⟨e, he, rfl⟩ := List.mem_map.mp hs
    exact (hpos e (hperm.subset he)).2
  have hssprod : ss.prod = npoints (sizeFn sizes) rate := by
    unfold npoints
    exact List.Perm.prod_nat (hperm.map _)
  -- digits per sorted position are the grid indices of the dimension at that position
  have hdigit : ∀ i, i < sizes.length → ∀ j,
      gridIdx (sizeFn sizes) rate j (ord.getD i 0) = Usid.Rebuild.D ss j i := by
    intro i hi j
    have hi' : i < ord.length := by omega
    have he : ord.getD i 0 = ord[i] := by
      rw [List.getD_eq_getElem?_getD, List.getElem?_eq_getElem hi']; rfl
    have hsg : ss.getD i 1 = sizeFn sizes ord[i] := by
      simp [ss, List.getD_eq_getElem?_getD, List.getElem?_map, List.getElem?_eq_getElem hi']
    unfold Usid.Rebuild.D gridIdx
    rw [hsg, he]
    by_cases hbig : 1 < sizeFn sizes ord[i]
    · have helt : ord[i] < sizes.length := (hpos _ (hperm.subset (List.getElem_mem hi'))).1
      rw [← hstride ord[i] helt hbig]
      have hsplit : ord = ord.take i ++ ord[i] :: ord.drop (i + 1) := by
        rw [List.getElem_cons_drop, List.take_append_drop]
      have hnotin : ord[i] ∉ ord.take i := by
        intro hm
        rw [hsplit] at hndo
        exact (List.nodup_append.mp hndo).2.2 _ hm _ List.mem_cons_self rfl
      have : strideBefore (sizeFn sizes) ord ord[i] = Usid.Rebuild.T ss i := by
        have hs := stride_split (sizeFn sizes) (ord.take i) (ord.drop (i + 1)) ord[i] hnotin
        rw [← hsplit] at hs
        rw [hs]
        unfold Usid.Rebuild.T
        simp [ss, List.map_take]
      rw [this]
    · have : sizeFn sizes ord[i] = 1 := by
        have := (hpos _ (hperm.subset (List.getElem_mem hi'))).2; omega
      rw [this, Nat.mod_one, Nat.mod_one]
  -- the changed rows at a column are the positions whose digit changes
  have hchanged : ∀ j, j + 1 < npoints (sizeFn sizes) rate →
      Usid.UV.changedAt (valueMatrix sizes rate values) ord (j + 1) =
        (List.range ss.length).filter (fun i => Usid.Rebuild.D ss (j + 1) i != Usid.Rebuild.D ss j i) := by
    intro j hj
    unfold Usid.UV.changedAt
    rw [hklen, hsslen]
    apply List.filter_congr
    intro i hi
    have hi' := List.mem_range.mp hi
    have helt : ord.getD i 0 < sizes.length := (hpos _ (hordmem i hi')).1
    rw [hrow _ helt]
    have hget : ∀ r, r < npoints (sizeFn sizes) rate →
        ((gridRow (sizeFn sizes) rate (ord.getD i 0)).map
          (fun x => (values.getD (ord.getD i 0) []).getD x 0)).getD r 0 =
        (values.getD (ord.getD i 0) []).getD (Usid.Rebuild.D ss r i) 0 := by
      intro r hr
      rw [← hdigit i hi' r]
      simp [gridRow, List.getD_eq_getElem?_getD, List.getElem?_map, List.getElem?_range hr]
    rw [hget (j + 1) hj, show j + 1 - 1 = j by omega, hget j (by omega)]
    by_cases hD : Usid.Rebuild.D ss (j + 1) i = Usid.Rebuild.D ss j i
    · rw [hD]; simp
    · have hne : (values.getD (ord.getD i 0) []).getD (Usid.Rebuild.D ss (j + 1) i) 0 ≠
          (values.getD (ord.getD i 0) []).getD (Usid.Rebuild.D ss j i) 0 := by
        intro e
        apply hD
        refine hinj _ helt _ ?_ _ ?_ e
        · rw [← hdigit i hi' (j + 1)]; exact hgi _ helt _
        · rw [← hdigit i hi' j]; exact hgi _ helt _
      have h1 : ((values.getD (ord.getD i 0) []).getD (Usid.Rebuild.D ss (j + 1) i) 0 !=
          (values.getD (ord.getD i 0) []).getD (Usid.Rebuild.D ss j i) 0) = true := by simpa using hne
      have h2 : (Usid.Rebuild.D ss (j + 1) i != Usid.Rebuild.D ss j i) = true := by simpa using hD
      rw [h1, h2]
  -- the running indices at column j are the digits of j
  have hiter : ∀ j, j < npoints (sizeFn sizes) rate →
      Usid.Rebuild.iterCols (fun prev j => Usid.UV.rebuildStep
        (Usid.UV.changedAt (valueMatrix sizes rate values) ord (j + 1)) prev)
        (List.replicate (valueMatrix sizes rate values).length 0) j = (List.range ss.length).map (Usid.Rebuild.D ss j) := by
    intro j
    induction j with
    | zero =>
      intro _
      show List.replicate _ 0 = _
      rw [hklen, hsslen]
      apply List.ext_getElem
      · simp
      · intro n h1 h2
        simp [Usid.Rebuild.D]
    | succ j ih =>
      intro hj
      show Usid.UV.rebuildStep _ (Usid.Rebuild.iterCols _ _ j) = _
      rw [ih (by omega)]
      exact Usid.Rebuild.odometer_step ss hss1 j (by rw [hssprod]; exact hj) _ (hchanged j hj)
  unfold Usid.UV.createSpecIndsFromVals
  simp only [hN, hcounts, hordef, hklen]
  unfold gridMatrix
  apply List.map_congr_left
  intro d hd
  have hd' := List.mem_range.mp hd
  unfold gridRow
  apply List.map_congr_left
  intro j hj
  have hj' := List.mem_range.mp hj
  rw [Usid.Rebuild.rebuildCols_eq _ _ _ hNpos]
  have hdo : d ∈ ord := hperm.symm.subset (hall d hd')
  have hfi : ord.findIdx (· == d) < ord.length :=
    List.findIdx_lt_length_of_exists ⟨d, hdo, by simp⟩
  have hfe : ord.getD (ord.findIdx (· == d)) 0 = d := by
    rw [List.getD_eq_getElem?_getD, List.getElem?_eq_getElem hfi]
    have := List.findIdx_getElem (w := hfi)
    simpa using this
  have hcol : (((List.range (npoints (sizeFn sizes) rate)).map
      (Usid.Rebuild.iterCols (fun prev j => Usid.UV.rebuildStep
        (Usid.UV.changedAt (valueMatrix sizes rate values) ord (j + 1)) prev)
        (List.replicate (valueMatrix sizes rate values).length 0))).getD j []) =
      (List.range ss.length).map (Usid.Rebuild.D ss j) := by
    rw [← hiter j hj']
    simp [List.getD_eq_getElem?_getD, List.getElem?_map, List.getElem?_range hj']
  rw [hcol]
  have hfi' : ord.findIdx (· == d) < ss.length := by rw [hsslen]; omega
  have : ((List.range ss.length).map (Usid.Rebuild.D ss j)).getD (ord.findIdx (· == d)) 0 =
      Usid.Rebuild.D ss j (ord.findIdx (· == d)) := by
    simp [List.getD_eq_getElem?_getD, List.getElem?_map, List.getElem?_range hfi']
  rw [this, ← hdigit _ (by omega) j, hfe]

/-- the hypotheses of `rebuild_indices` are satisfiable by a non-trivial grid -/
example : ValidGrid [2, 3] [1, 0] ∧ ∀ d, d < [2, 3].length →
    (([[5, 7], [10, 30, 20]] : List (List Int)).getD d []).length = [2, 3].getD d 1 ∧
    (([[5, 7], [10, 30, 20]] : List (List Int)).getD d []).Nodup := by
  refine ⟨⟨by decide, by decide⟩, ?_⟩
  intro d hd
  match d, hd with
  | 0, _ => decide
  | 1, _ => decide

example : gridMatrix [2, 3] [1, 0] = [[0, 0, 0, 1, 1, 1], [0, 1, 2, 0, 1, 2]] := by decide
example : (gridMatrix [2, 3, 1] [1, 2, 0]).map changeCountRow = [2, 6, 0] := by decide

end Usid.C09
