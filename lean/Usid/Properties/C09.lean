import Usid.Proofs.Dims
/-! C09 — sizes, change-rate order and unit values are recovered from any regular grid. -/
namespace Usid.C09
open Usid Usid.Grid Usid.Dims

/-- size of dimension id `d` (storage order) -/
def sizeFn (sizes : List Nat) : Nat → Nat := fun d => sizes.getD d 1

/-- the k × N index matrix (spectroscopic orientation, rows in STORAGE order) of the regular grid with the
    given sizes whose dimensions vary in the order `rate` (fastest first) -/
def gridMatrix (sizes rate : List Nat) : List (List Nat) :=
  (List.range sizes.length).map (gridRow (sizeFn sizes) rate)

/-- `rate` is a storage permutation of the dimensions and every size is ≥ 1 -/
def ValidGrid (sizes rate : List Nat) : Prop := rate.Perm (List.range sizes.length) ∧ ∀ s ∈ sizes, 1 ≤ s

theorem valid_facts (sizes rate : List Nat) (h : ValidGrid sizes rate) :
    rate.Nodup ∧ (∀ e ∈ rate, e < sizes.length ∧ 1 ≤ sizeFn sizes e) ∧
    (∀ d, d < sizes.length → d ∈ rate) := by
  refine ⟨h.1.nodup_iff.mpr List.nodup_range, ?_, ?_⟩
  · intro e he
    have hlt : e < sizes.length := List.mem_range.mp (h.1.subset he)
    refine ⟨hlt, ?_⟩
    unfold sizeFn
    rw [List.getD_eq_getElem?_getD, List.getElem?_eq_getElem hlt]
    exact h.2 _ (List.getElem_mem hlt)
  · intro d hd
    exact h.1.symm.subset (List.mem_range.mpr hd)

/-- Change count of every dimension of every regular grid, in every storage permutation:
    `count · stride = N` for a dimension of size > 1 and `count = 0` for a size-1 dimension (the wrap-around
    comparison of the Python expression included). -/
theorem change_count (sizes rate : List Nat) (h : ValidGrid sizes rate) (d : Nat) (hd : d < sizes.length) :
    changeCountRow (gridRow (sizeFn sizes) rate d) * strideBefore (sizeFn sizes) rate d =
      if 1 < sizeFn sizes d then npoints (sizeFn sizes) rate else 0 := by
  obtain ⟨hnd, hpos, hall⟩ := valid_facts sizes rate h
  obtain ⟨pre, post, e, hpre⟩ := split_of_mem rate d (hall d hd)
  have hc := countOf_split (sizeFn sizes) rate pre post d e hpre (fun x hx => (hpos x hx).2)
  have : changeCountRow (gridRow (sizeFn sizes) rate d) = countOf (sizeFn sizes) rate d := rfl
  rw [this, hc]
  subst e
  rw [stride_split _ pre post d hpre, npoints_split]
  by_cases hs : 1 < sizeFn sizes d
  · simp only [hs, if_true]
    simp only [Nat.mul_comm, Nat.mul_left_comm]
  · simp [hs]

/-- Change counts are strictly decreasing along the true rate order among dimensions of size > 1
    (so ties happen only among size-1 dimensions, whose count is 0). -/
theorem counts_strict (sizes rate : List Nat) (h : ValidGrid sizes rate) :
    rate.Pairwise (fun a b => 1 < sizeFn sizes a → 1 < sizeFn sizes b →
      countOf (sizeFn sizes) rate b < countOf (sizeFn sizes) rate a) :=
  Grid.counts_strict _ rate (valid_facts sizes rate h).1 (fun e he => ((valid_facts sizes rate h).2.1 e he).2)

theorem gridMatrix_orient (sizes rate : List Nat) (hk : sizes.length ≤ npoints (sizeFn sizes) rate) :
    orient (gridMatrix sizes rate) = gridMatrix sizes rate := by
  unfold orient
  have : ¬ (gridMatrix sizes rate).length > ncols (gridMatrix sizes rate) := by
    unfold gridMatrix ncols
    cases hs : sizes with
    | nil => simp
    | cons s ss =>
      simp only [List.length_cons, List.range_succ_eq_map, List.map_cons, List.headD_cons, gridRow,
        List.length_map, List.length_range]
      rw [hs] at hk; simpa using hk
  simp [this]

/-- The reported size of every dimension is its true size (= its number of distinct indices), for every
    regular grid in every storage permutation with at most as many dimensions as points. -/
theorem sizes (sizes rate : List Nat) (h : ValidGrid sizes rate)
    (hk : sizes.length ≤ npoints (sizeFn sizes) rate) :
    getDimensionality (gridMatrix sizes rate) none = .ok sizes := by
  obtain ⟨hnd, hpos, hall⟩ := valid_facts sizes rate h
  unfold getDimensionality
  rw [gridMatrix_orient sizes rate hk]
  simp only [Except.ok.injEq]
  unfold gridMatrix
  rw [List.map_map]
  apply List.ext_getElem?
  intro d
  by_cases hd : d < sizes.length
  · rw [List.getElem?_map, List.getElem?_range hd, List.getElem?_eq_getElem hd]
    simp only [Option.map_some, Function.comp, Option.some.injEq]
    obtain ⟨pre, post, e, hpre⟩ := split_of_mem rate d (hall d hd)
    subst e
    rw [distinct_gridRow _ pre post d hpre (fun x hx => (hpos x hx).2)]
    simp [sizeFn, List.getD_eq_getElem?_getD, List.getElem?_eq_getElem hd]
  · rw [List.getElem?_eq_none (by simpa using hd), List.getElem?_eq_none (by simpa using hd)]

theorem counts_getD (sizes rate : List Nat) (d : Nat) (hd : d < sizes.length) :
    ((gridMatrix sizes rate).map changeCountRow).getD d 0 = countOf (sizeFn sizes) rate d := by
  unfold gridMatrix
  rw [List.map_map, List.getD_eq_getElem?_getD, List.getElem?_map, List.getElem?_range hd]
  rfl

/-- The reported order: a permutation of the dimensions along which the change counts never increase,
    whose strides equal the strides of the true rate order for every dimension of size > 1, and which ranks
    the dimensions of size > 1 exactly as the true rate order does (fastest → slowest).  Only size-1
    dimensions may sit elsewhere — whatever tie-breaking the sort uses. -/
theorem order_is_rate (sizes rate : List Nat) (h : ValidGrid sizes rate)
    (hk : sizes.length ≤ npoints (sizeFn sizes) rate) :
    let ord := getSortOrder (gridMatrix sizes rate)
    ord.Perm rate ∧
    (∀ d, d < sizes.length → 1 < sizeFn sizes d →
      strideBefore (sizeFn sizes) ord d = strideBefore (sizeFn sizes) rate d) ∧
    ord.filter (fun d => decide (1 < sizeFn sizes d)) = rate.filter (fun d => decide (1 < sizeFn sizes d)) := by
  obtain ⟨hnd, hpos, hall⟩ := valid_facts sizes rate h
  intro ord
  have hord : ord = argsortRev ((gridMatrix sizes rate).map changeCountRow) := by
    show getSortOrder _ = _
    unfold getSortOrder; rw [gridMatrix_orient sizes rate hk]
  have hlen : ((gridMatrix sizes rate).map changeCountRow).length = sizes.length := by simp [gridMatrix]
  have hperm : ord.Perm rate := by
    rw [hord]
    have := argsortRev_perm ((gridMatrix sizes rate).map changeCountRow)
    rw [hlen] at this
    exact this.trans h.1.symm
  have hsorted : ord.Pairwise (fun a b => countOf (sizeFn sizes) rate b ≤ countOf (sizeFn sizes) rate a) := by
    have hs := argsortRev_sorted ((gridMatrix sizes rate).map changeCountRow)
    rw [← hord] at hs
    apply List.Pairwise.imp_of_mem _ hs
    intro a b ha hb hab
    have ha' := (hpos a (hperm.subset ha)).1
    have hb' := (hpos b (hperm.subset hb)).1
    rw [counts_getD sizes rate a ha', counts_getD sizes rate b hb'] at hab
    exact hab
  have hstrict := counts_strict sizes rate h
  refine ⟨hperm, ?_, ?_⟩
  · intro d hd hbig
    exact stride_eq_of_sorted (sizeFn sizes) (countOf (sizeFn sizes) rate) rate ord hperm hnd
      (fun e he => (hpos e he).2) hstrict hsorted d (hall d hd) hbig
  · apply List.Perm.eq_of_pairwise (le := fun a b => countOf (sizeFn sizes) rate b ≤ countOf (sizeFn sizes) rate a)
    · intro a b ha hb h1 h2
      have ha' := List.mem_filter.mp ha
      have hb' := List.mem_filter.mp hb
      have hbig_a : 1 < sizeFn sizes a := by simpa using ha'.2
      have hbig_b : 1 < sizeFn sizes b := by simpa using hb'.2
      have ha_r : a ∈ rate := hperm.subset ha'.1
      apply Classical.byContradiction
      intro hne
      by_cases hpre : a ∈ rate.takeWhile (fun e => e != b)
      · have := before_rel rate b a hstrict hb'.1 hpre hbig_a hbig_b
        omega
      · have := after_rel rate b a hstrict hb'.1 ha_r hne hpre hbig_b hbig_a
        omega
    · exact hsorted.filter _
    · have hf := hstrict.filter (fun d => decide (1 < sizeFn sizes d))
      apply List.Pairwise.imp_of_mem _ hf
      intro a b ha hb hab
      have ha' := (List.mem_filter.mp ha).2
      have hb' := (List.mem_filter.mp hb).2
      exact Nat.le_of_lt (hab (by simpa using ha') (by simpa using hb'))
    · exact hperm.filter _

/-- the k × N values matrix: `value_d[index_d]` -/
def valueMatrix (sizes rate : List Nat) (values : List (List Int)) : List (List Int) :=
  (List.range sizes.length).map (fun d => (gridRow (sizeFn sizes) rate d).map (fun i => (values.getD d []).getD i 0))

/-- FULL statement for unit values (NOT yet proved in Lean; exercised by the correspondence and the oracle on
    every generated grid): for every regular grid and every storage permutation, `get_unit_values` returns for
    each dimension exactly its reference values in index order. -/
def unit_values_statement : Prop :=
  ∀ (sizes rate : List Nat) (values : List (List Int)) (names : List String),
    ValidGrid sizes rate → values.length = sizes.length → names.length = sizes.length → names.Nodup →
    (∀ d (h : d < sizes.length), (values.getD d []).length = sizes.getD d 1) →
    Usid.UV.getUnitValues (gridMatrix sizes rate) (valueMatrix sizes rate values) names none (some true) =
      .ok (names.zip values)

/-- FULL statement for rebuilding indices from values (NOT yet proved in Lean): when the values of every
    dimension are pairwise distinct, `create_spec_inds_from_vals` reproduces the index matrix. -/
def rebuild_indices_statement : Prop :=
  ∀ (sizes rate : List Nat) (values : List (List Int)),
    ValidGrid sizes rate → values.length = sizes.length →
    (∀ d (h : d < sizes.length), (values.getD d []).length = sizes.getD d 1 ∧ (values.getD d []).Nodup) →
    Usid.UV.createSpecIndsFromVals (valueMatrix sizes rate values) = gridMatrix sizes rate

example : gridMatrix [2, 3] [1, 0] = [[0, 0, 0, 1, 1, 1], [0, 1, 2, 0, 1, 2]] := by decide
example : (gridMatrix [2, 3, 1] [1, 2, 0]).map changeCountRow = [2, 6, 0] := by decide

end Usid.C09
