import Usid.Model.Reshape
/-! C10 — flattening an N-D array back to 2D inverts the N-D reshape.
    (Refusal theorems; the inverse theorems are in progress, see DESIGN.md.) -/
namespace Usid.C10
open Usid Usid.Reshape Usid.Dims

variable {α : Type} [Inhabited α]

/-- An element-count mismatch between the index matrices and the N-D array is refused (ValueError): no
    matrix is returned. -/
theorem incompatible_raises (nd : NDArr α) (pos spec : List (List Nat)) (h2 : 2 ≤ nd.shape.length)
    (hne : pos.length * ncols spec ≠ nd.shape.prod) :
    reshapeFromNDimsBoth nd pos spec = .error .valueErr := by
  unfold reshapeFromNDimsBoth
  have h : ¬ nd.shape.length < 2 := by omega
  simp only [h, if_false, bind, Except.bind, pure, Except.pure]
  simp [hne, throw, throwThe, MonadExceptOf.throw]

/-- A mismatch in the number of axes is refused unless one side has a single point (whose axis may have
    been squeezed out). -/
theorem rank_mismatch_raises (nd : NDArr α) (pos spec : List (List Nat)) (h2 : 2 ≤ nd.shape.length)
    (hcount : pos.length * ncols spec = nd.shape.prod)
    (hrank : ncols pos + spec.length ≠ nd.shape.length)
    (hp : pos.length * ncols pos ≠ 1) (hs : spec.length * ncols spec ≠ 1) :
    reshapeFromNDimsBoth nd pos spec = .error .valueErr := by
  unfold reshapeFromNDimsBoth
  have h : ¬ nd.shape.length < 2 := by omega
  simp only [h, if_false, bind, Except.bind, pure, Except.pure]
  simp [hcount, hrank, hp, hs, throw, throwThe, MonadExceptOf.throw]

/-- Whatever is returned has the 2-D shape (N, M) of the index matrices: a result is never of another
    shape (rearrangement within that shape is excluded by the correspondence, and by the inverse theorems
    under construction). -/
theorem result_shape (nd nd' : NDArr α) (pos spec : List (List Nat)) (h2 : 2 ≤ nd.shape.length)
    (h : reshapeFromNDimsBoth nd pos spec = .ok nd') : nd'.shape = [pos.length, ncols spec] := by
  unfold reshapeFromNDimsBoth at h
  have h0 : ¬ nd.shape.length < 2 := by omega
  simp only [h0, if_false, bind, Except.bind, pure, Except.pure] at h
  split at h
  · cases h
  · split at h
    · cases h
    · split at h
      · cases h
      · rename_i t ht
        unfold reshapeND at h
        split at h
        · cases h
        · injection h with h; rw [← h]; rfl

end Usid.C10
