import Usid.Properties.C01
import Usid.Proofs.FlattenOne
import Usid.Proofs.OneSided
/-! C10 — flattening an N-D array back to 2D inverts the N-D reshape.
    Refusal theorems and the inverse law flatten . reshape = id. -/
namespace Usid.C10
open Usid Usid.Reshape Usid.Dims

variable {α : Type} [Inhabited α]

/-- An element-count mismatch between the index matrices and the N-D array is refused (ValueError): no
    matrix is returned. -/
theorem incompatible_raises (nd : NDArr α) (pos spec : List (List Nat)) (h2 : 2 ≤ nd.shape.length)
    (hne : pos.length * ncols spec ≠ nd.shape.prod) :
    reshapeFromNDimsBoth nd pos spec = .error .valueErr := by
  unfold reshapeFromNDimsBoth
  have h : ¬ nd.shape.length < 2 := by omega
  simp only [h, if_false, bind, Except.bind, pure, Except.pure]
  simp [hne, throw, throwThe, MonadExceptOf.throw]

/-- A mismatch in the number of axes is refused unless one side has a single point (whose axis may have
    been squeezed out). -/
theorem rank_mismatch_raises (nd : NDArr α) (pos spec : List (List Nat)) (h2 : 2 ≤ nd.shape.length)
    (hcount : pos.length * ncols spec = nd.shape.prod)
    (hrank : ncols pos + spec.length ≠ nd.shape.length)
    (hp : pos.length * ncols pos ≠ 1) (hs : spec.length * ncols spec ≠ 1) :
    reshapeFromNDimsBoth nd pos spec = .error .valueErr := by
  unfold reshapeFromNDimsBoth
  have h : ¬ nd.shape.length < 2 := by omega
  simp only [h, if_false, bind, Except.bind, pure, Except.pure]
  simp [hcount, hrank, hp, hs, throw, throwThe, MonadExceptOf.throw]

/-- Whatever is returned has the 2-D shape (N, M) of the index matrices: a result is never of another
    shape (rearrangement within that shape is excluded by the correspondence, and by the inverse theorems
    under construction). -/
theorem result_shape (nd nd' : NDArr α) (pos spec : List (List Nat)) (h2 : 2 ≤ nd.shape.length)
    (h : reshapeFromNDimsBoth nd pos spec = .ok nd') : nd'.shape = [pos.length, ncols spec] := by
  unfold reshapeFromNDimsBoth at h
  have h0 : ¬ nd.shape.length < 2 := by omega
  simp only [h0, if_false, bind, Except.bind, pure, Except.pure] at h
  split at h
  · cases h
  · split at h
    · cases h
    · split at h
      · cases h
      · rename_i t ht
        unfold reshapeND at h
        split at h
        · cases h
        · injection h with h; rw [← h]; rfl

/-- **One-sided requests never change the number of elements.**  With only the position matrix supplied,
    whatever is returned is an `N x M'` matrix with `N` the number of rows of that matrix and `M'` the extent of
    the axes left for the missing side, and `N * M'` is the number of elements of the array. -/
theorem one_sided_pos_size (nd r : NDArr α) (inds : List (List Nat)) (h2 : 2 ≤ nd.shape.length)
    (h : reshapeFromNDimsOne nd inds false = .ok r) :
    ∃ dims, getDimensionality inds (some (getSortOrder inds)) = .ok dims ∧
      r.shape = [inds.length, (nd.shape.drop dims.length).prod] ∧
      inds.length * (nd.shape.drop dims.length).prod = nd.shape.prod := by
  unfold reshapeFromNDimsOne at h
  have h0 : ¬ nd.shape.length < 2 := by omega
  simp only [h0, if_false, bind, Except.bind, pure, Except.pure] at h
  split at h
  · cases h
  · rename_i dims hd
    refine ⟨dims, hd, ?_⟩
    split at h
    · cases h
    · simp only [Bool.false_eq_true, if_false] at h
      split at h
      · cases h
      · rename_i mat hm
        split at h
        · cases h
        · rename_i nd2 ht
          have hsz := transposeND_size nd nd2 _ ht
          have hc := makeIndicesMatrix_cols _ mat hm
          unfold reshapeND at h
          split at h
          · cases h
          · rename_i hp
            injection h with h
            rw [← h]
            simp only [bne_iff_ne, ne_eq, Decidable.not_not, List.prod_cons, List.prod_nil, Nat.mul_one] at hp
            rw [hc] at hp ⊢
            exact ⟨rfl, by rw [hp, hsz.1]⟩

/-- the same with only the spectroscopic matrix supplied: `N' x M` with `M` its number of columns -/
theorem one_sided_spec_size (nd r : NDArr α) (inds : List (List Nat)) (h2 : 2 ≤ nd.shape.length)
    (h : reshapeFromNDimsOne nd inds true = .ok r) :
    ∃ dims, getDimensionality inds (some (getSortOrder inds)) = .ok dims ∧
      r.shape = [(nd.shape.take (nd.shape.length - dims.length)).prod, ncols inds] ∧
      (nd.shape.take (nd.shape.length - dims.length)).prod * ncols inds = nd.shape.prod := by
  unfold reshapeFromNDimsOne at h
  have h0 : ¬ nd.shape.length < 2 := by omega
  simp only [h0, if_false, bind, Except.bind, pure, Except.pure] at h
  split at h
  · cases h
  · rename_i dims hd
    refine ⟨dims, hd, ?_⟩
    split at h
    · cases h
    · simp only [if_true] at h
      split at h
      · cases h
      · rename_i mat hm
        split at h
        · cases h
        · rename_i nd2 ht
          have hsz := transposeND_size nd nd2 _ ht
          have hc := makeIndicesMatrix_cols _ mat hm
          unfold reshapeND at h
          split at h
          · cases h
          · rename_i hp
            injection h with h
            rw [← h]
            simp only [bne_iff_ne, ne_eq, Decidable.not_not, List.prod_cons, List.prod_nil, Nat.mul_one] at hp
            rw [hc] at hp ⊢
            exact ⟨rfl, by rw [hp, hsz.1]⟩

theorem prod_take_drop (l : List Nat) (k : Nat) : (l.take k).prod * (l.drop k).prod = l.prod := by
  rw [← List.prod_append, List.take_append_drop]

/-- **Shape-incompatible one-sided requests raise.**  `k` = the number of dimensions the position matrix
    describes (`orient` is the shape heuristic of `get_dimensionality`).  When the `k` leading axes of the array
    hold another number of points than that matrix has rows, nothing is returned. -/
theorem one_sided_pos_incompatible_raises (nd : NDArr α) (inds : List (List Nat))
    (h2 : 2 ≤ nd.shape.length)
    (hpos : 0 < (nd.shape.drop (orient inds).length).prod)
    (hbad : (nd.shape.take (orient inds).length).prod ≠ inds.length) :
    ∀ r, reshapeFromNDimsOne nd inds false ≠ .ok r := by
  intro r h
  obtain ⟨dims, hd, _, hsz⟩ := one_sided_pos_size nd r inds h2 h
  have hl : dims.length = (orient inds).length := by
    rw [length_getDimensionality _ _ _ hd, length_getSortOrder]
  rw [hl, ← prod_take_drop nd.shape (orient inds).length] at hsz
  exact hbad (Nat.eq_of_mul_eq_mul_right hpos hsz).symm

/-- ... and when the `k` trailing axes hold another number of points than the spectroscopic matrix has columns -/
theorem one_sided_spec_incompatible_raises (nd : NDArr α) (inds : List (List Nat))
    (h2 : 2 ≤ nd.shape.length)
    (hpos : 0 < (nd.shape.take (nd.shape.length - (orient inds).length)).prod)
    (hbad : (nd.shape.drop (nd.shape.length - (orient inds).length)).prod ≠ ncols inds) :
    ∀ r, reshapeFromNDimsOne nd inds true ≠ .ok r := by
  intro r h
  obtain ⟨dims, hd, _, hsz⟩ := one_sided_spec_size nd r inds h2 h
  have hl : dims.length = (orient inds).length := by
    rw [length_getDimensionality _ _ _ hd, length_getSortOrder]
  rw [hl, ← prod_take_drop nd.shape (nd.shape.length - (orient inds).length)] at hsz
  exact hbad (Nat.eq_of_mul_eq_mul_left hpos hsz).symm

/-- the hypotheses are satisfiable: a 2 x 2 position grid handed over with an array arranged
    `[spec(3), row(2), col(2)]`; a 2 x 2 spectroscopic grid with an array arranged `[2, 2, 3]` -/
example : ∀ r, reshapeFromNDimsOne (⟨[3, 2, 2], List.range 12⟩ : NDArr Nat) [[0,0],[1,0],[0,1],[1,1]] false ≠ .ok r :=
  one_sided_pos_incompatible_raises _ _ (by decide) (by decide) (by decide)
example : ∀ r, reshapeFromNDimsOne (⟨[2, 2, 3], List.range 12⟩ : NDArr Nat) [[0,1,0,1],[0,0,1,1]] true ≠ .ok r :=
  one_sided_spec_incompatible_raises _ _ (by decide) (by decide) (by decide)

/-! ### the inverse laws -/
open Usid.Grid Usid.C09 Usid.C01

/-- **Flattening reads coordinates.**  For every pair of regular grids (any sizes, any storage permutation,
    dimensions <= points per side, at least one dimension per side) and EVERY N-D array `nd` of the
    file-order shape: `reshape_from_n_dims` with both index matrices succeeds, returns an N x M matrix, and
    its element (r, c) is the element of `nd` at (position indices of row r ++ spectroscopic indices of
    column c). -/
theorem flatten_reads_coordinates (nd : NDArr α) (pS pR sS sR : List Nat) (posInds : List (List Nat))
    (hP : ValidGrid pS pR) (hS : ValidGrid sS sR)
    (hkP : pS.length ≤ npoints (sizeFn pS) pR) (hkS : sS.length ≤ npoints (sizeFn sS) sR)
    (hneP : 1 ≤ pS.length) (hneS : 1 ≤ sS.length)
    (hpos : transposeM posInds = gridMatrix pS pR)
    (hrows : posInds.length = npoints (sizeFn pS) pR) (hcols : ncols posInds = pS.length)
    (hshape : nd.shape = pS ++ sS) :
    ∃ R, reshapeFromNDimsBoth nd posInds (gridMatrix sS sR) = .ok R ∧
      R.shape = [npoints (sizeFn pS) pR, npoints (sizeFn sS) sR] ∧
      R.flat.length = npoints (sizeFn pS) pR * npoints (sizeFn sS) sR ∧
      ∀ r c, r < npoints (sizeFn pS) pR → c < npoints (sizeFn sS) sR →
        R.get [r, c] = nd.get (coords pS pR r (List.range pS.length) ++ coords sS sR c (List.range sS.length)) := by
  have hpermP0 := (order_is_rate pS pR hP hkP).1
  have hpermS0 := (order_is_rate sS sR hS hkS).1
  have hpermP := hpermP0.trans hP.1
  have hpermS := hpermS0.trans hS.1
  have hordlen : (getSortOrder (gridMatrix pS pR)).length = pS.length := by rw [hpermP.length_eq, List.length_range]
  let sigma := sigmaOf pS.length (getSortOrder (gridMatrix pS pR)) (getSortOrder (gridMatrix sS sR))
  have hsig : sigma.Perm (List.range (pS.length + sS.length)) := sigma_perm pS.length sS.length _ _ hpermP hpermS
  obtain ⟨_, hslen, hslt, hsmem⟩ := perm_facts _ sigma hsig
  have hklen : nd.shape.length = pS.length + sS.length := by rw [hshape]; simp
  have hltP : ∀ d ∈ getSortOrder (gridMatrix pS pR), d < pS.length := fun d hd => List.mem_range.mp (hpermP.subset hd)
  have hprodP : ((getSortOrder (gridMatrix pS pR)).map (sizeFn pS)).prod = npoints (sizeFn pS) pR := (hpermP0.map _).prod_nat
  have hprodS : ((getSortOrder (gridMatrix sS sR)).map (sizeFn sS)).prod = npoints (sizeFn sS) sR := (hpermS0.map _).prod_nat
  have hmS : ncols (gridMatrix sS sR) = npoints (sizeFn sS) sR := by
    unfold ncols gridMatrix
    cases hs : sS with
    | nil => simp [hs] at hneS
    | cons s ss => simp [List.range_succ_eq_map, gridRow]
  have hksS : (gridMatrix sS sR).length = sS.length := by simp [gridMatrix]
  have hnprod : nd.shape.prod = npoints (sizeFn pS) pR * npoints (sizeFn sS) sR := by
    rw [hshape, List.prod_append]
    have e1 := prod_sizes pS pR hP
    have e2 := prod_sizes sS sR hS
    rw [e1, e2]
  -- the transposition to slowest-first order
  have htr : transposeND nd sigma = .ok (nd.transpose sigma (Usid.Translate.inversePerm (pS.length + sS.length) sigma)) := by
    unfold transposeND
    rw [hklen]
    have c1 : (sigma.length != pS.length + sS.length) = false := by rw [hslen]; simp
    have c2 : (List.range (pS.length + sS.length)).all (fun ax => sigma.contains ax) = true := by
      rw [List.all_eq_true]; intro ax hax
      simpa using hsmem ax (List.mem_range.mp hax)
    simp only [c1, c2, Bool.not_true, Bool.or_self, Bool.false_eq_true, if_false]
    rfl
  have hshT : (nd.transpose sigma (Usid.Translate.inversePerm (pS.length + sS.length) sigma)).shape =
      (getSortOrder (gridMatrix pS pR)).reverse.map (sizeFn pS) ++ (getSortOrder (gridMatrix sS sR)).reverse.map (sizeFn sS) := by
    show sigma.map (fun ax => nd.shape.getD ax 1) = _
    rw [hshape, sigma_map pS.length _ _ pS sS 1 rfl hltP]; rfl
  have hflatT : (nd.transpose sigma (Usid.Translate.inversePerm (pS.length + sS.length) sigma)).flat.length =
      npoints (sizeFn pS) pR * npoints (sizeFn sS) sR := by
    have : (nd.transpose sigma (Usid.Translate.inversePerm (pS.length + sS.length) sigma)).flat.length =
        (nd.transpose sigma (Usid.Translate.inversePerm (pS.length + sS.length) sigma)).shape.prod := by
      simp [NDArr.transpose]
    rw [this, hshT, List.prod_append, List.map_reverse, List.map_reverse, (List.reverse_perm _).prod_nat,
      (List.reverse_perm _).prod_nat, hprodP, hprodS]
  refine ⟨(nd.transpose sigma (Usid.Translate.inversePerm (pS.length + sS.length) sigma)).reshape
      [npoints (sizeFn pS) pR, npoints (sizeFn sS) sR], ?_, rfl, hflatT, ?_⟩
  · unfold reshapeFromNDimsBoth
    have h2 : ¬ nd.shape.length < 2 := by rw [hklen]; omega
    have hsq : (ncols posInds + (gridMatrix sS sR).length != nd.shape.length) = false := by
      rw [hcols, hksS, hklen]; simp
    have htr' : transposeND nd ((getSortOrder (gridMatrix pS pR)).reverse ++
        (getSortOrder (gridMatrix sS sR)).reverse.map (fun x => x + (getSortOrder (gridMatrix pS pR)).length)) =
        .ok (nd.transpose sigma (Usid.Translate.inversePerm (pS.length + sS.length) sigma)) := by
      rw [hordlen]; exact htr
    simp only [h2, if_false, bind, Except.bind, pure, Except.pure, hrows, hmS, hnprod, bne_self_eq_false, Bool.false_eq_true,
      hsq, Bool.false_and, hpos, reshapeND, List.prod_cons, List.prod_nil, Nat.mul_one, List.length_reverse]
    rw [htr']
    simp only [hflatT, bne_self_eq_false, Bool.false_eq_true, if_false]
  · intro r c hr hc
    have hb : InBounds nd.shape (coords pS pR r (List.range pS.length) ++ coords sS sR c (List.range sS.length)) := by
      rw [hshape]
      exact inBounds_append _ _ _ _ (coords_inBounds pS pR hP r) (coords_inBounds sS sR hS c)
    have hb2 := Usid.Translate.inBounds_map nd.shape _ hb sigma (fun i hi => by rw [hklen]; exact hslt i hi)
    have hfl : (coords pS pR r (List.range pS.length) ++ coords sS sR c (List.range sS.length)).length = pS.length + sS.length := by
      simp [coords]
    have hg := Usid.Translate.gather_inverse (coords pS pR r (List.range pS.length) ++ coords sS sR c (List.range sS.length))
      sigma (fun i hi => hsmem i (by rw [← hfl]; exact hi))
    rw [hfl] at hg
    have ht := transpose_get nd sigma (Usid.Translate.inversePerm (pS.length + sS.length) sigma) _ hb2
    rw [hg] at ht
    rw [← ht, reshape_get]
    unfold NDArr.get
    congr 1
    rw [hshT]
    -- the sorted coordinates ravel to r * M + c
    have hsc := sigma_map pS.length (getSortOrder (gridMatrix pS pR)) (getSortOrder (gridMatrix sS sR))
      (coords pS pR r (List.range pS.length)) (coords sS sR c (List.range sS.length)) 0 (by simp [coords]) hltP
    rw [hsc, ravelC_append _ _ _ _ (by simp)]
    have e1 := ravel_sorted_coords pS pR hP hkP r hr
    have e2 := ravel_sorted_coords sS sR hS hkS c hc
    have c1 : (getSortOrder (gridMatrix pS pR)).reverse.map (fun d => (coords pS pR r (List.range pS.length)).getD d 0) =
        (getSortOrder (gridMatrix pS pR)).reverse.map (fun d => gridIdx (sizeFn pS) pR r d) := by
      apply List.map_congr_left
      intro d hd
      have hdk := hltP d (List.mem_reverse.mp hd)
      simp [coords, List.getD_eq_getElem?_getD, List.getElem?_map, List.getElem?_range hdk]
    have c2 : (getSortOrder (gridMatrix sS sR)).reverse.map (fun d => (coords sS sR c (List.range sS.length)).getD d 0) =
        (getSortOrder (gridMatrix sS sR)).reverse.map (fun d => gridIdx (sizeFn sS) sR c d) := by
      apply List.map_congr_left
      intro d hd
      have hdk : d < sS.length := List.mem_range.mp (hpermS.subset (List.mem_reverse.mp hd))
      simp [coords, List.getD_eq_getElem?_getD, List.getElem?_map, List.getElem?_range hdk]
    rw [c1, c2, e1, e2, List.map_reverse, (List.reverse_perm _).prod_nat, hprodS]
    simp [ravelC]

/-- two N x M matrices with the same elements are the same array -/
theorem matrix_ext (a b : NDArr α) (n m : Nat) (ha : a.shape = [n, m]) (hb : b.shape = [n, m])
    (hla : a.flat.length = n * m) (hlb : b.flat.length = n * m)
    (h : ∀ r c, r < n → c < m → a.get [r, c] = b.get [r, c]) : a = b := by
  cases a with | mk sa fa => cases b with | mk sb fb =>
  simp only at ha hb hla hlb
  subst ha hb
  congr 1
  apply List.ext_getElem (by rw [hla, hlb])
  intro k h1 h2
  have hk : k < n * m := by rw [← hla]; exact h1
  have hm : 0 < m := by
    rcases Nat.eq_zero_or_pos m with h0 | h0
    · rw [h0] at hk; simp at hk
    · exact h0
  have hr : k / m < n := (Nat.div_lt_iff_lt_mul hm).mpr hk
  have := h (k / m) (k % m) hr (Nat.mod_lt _ hm)
  simp only [NDArr.get, ravelC, List.prod_cons, List.prod_nil, Nat.mul_one, Nat.add_zero] at this
  have e : k / m * m + k % m = k := by rw [Nat.mul_comm]; exact Nat.div_add_mod k m
  rw [e, List.getD_eq_getElem?_getD, List.getD_eq_getElem?_getD, List.getElem?_eq_getElem h1,
    List.getElem?_eq_getElem h2] at this
  simpa using this

/-- **Flattening inverts the N-D reshape.**  For every regular-grid dataset (any sizes, any storage
    permutation of either side, dimensions <= points per side) flattening the file-order N-D form of `main`
    with the dataset's own index matrices returns exactly `main`. -/
theorem flatten_of_reshape (main : NDArr α) (pS pR sS sR : List Nat) (posInds : List (List Nat))
    (posLabs specLabs : List String)
    (hP : ValidGrid pS pR) (hS : ValidGrid sS sR)
    (hkP : pS.length ≤ npoints (sizeFn pS) pR) (hkS : sS.length ≤ npoints (sizeFn sS) sR)
    (hneP : 1 ≤ pS.length) (hneS : 1 ≤ sS.length)
    (hpos : transposeM posInds = gridMatrix pS pR)
    (hrows : posInds.length = npoints (sizeFn pS) pR) (hcols : ncols posInds = pS.length)
    (hshape : main.shape = [npoints (sizeFn pS) pR, npoints (sizeFn sS) sR])
    (hflat : main.flat.length = npoints (sizeFn pS) pR * npoints (sizeFn sS) sR)
    (hlp : posLabs.length = pS.length) (hls : specLabs.length = sS.length) (hnd : (posLabs ++ specLabs).Nodup) :
    ∃ nd, reshapeToNDims main posInds (gridMatrix sS sR) posLabs specLabs false = .ok (nd, posLabs ++ specLabs) ∧
      reshapeFromNDimsBoth nd posInds (gridMatrix sS sR) = .ok main := by
  obtain ⟨nd, h1, hsh, _, hget⟩ := coordinate_map main pS pR sS sR posInds posLabs specLabs hP hS hkP hkS hpos hshape hflat
    hlp hls hnd
  obtain ⟨R, h2, hRs, hRl, hRget⟩ := flatten_reads_coordinates nd pS pR sS sR posInds hP hS hkP hkS hneP hneS hpos hrows
    hcols hsh
  refine ⟨nd, h1, ?_⟩
  rw [h2]
  congr 1
  exact matrix_ext R main _ _ hRs hshape hRl hflat (fun r c hr hc => by rw [hRget r c hr hc, hget r c hr hc])

theorem inBounds_split : ∀ (s1 s2 idx : List Nat), InBounds (s1 ++ s2) idx →
    ∃ i1 i2, idx = i1 ++ i2 ∧ InBounds s1 i1 ∧ InBounds s2 i2
  | [], s2, idx, h => ⟨[], idx, rfl, trivial, h⟩
  | s :: ss, s2, i :: is, h => by
    obtain ⟨i1, i2, e, h1, h2⟩ := inBounds_split ss s2 is h.2
    exact ⟨i :: i1, i2, by rw [e]; rfl, ⟨h.1, h1⟩, h2⟩
  | _ :: _, _, [], h => by simp [InBounds] at h

/-- **... and reshaping the flattened matrix returns the same N-D array.**  For every regular-grid pair and
    EVERY well-formed N-D array `nd` of the file-order shape: flattening it and reshaping the result with the
    same index matrices gives `nd` back. -/
theorem reshape_of_flatten (nd : NDArr α) (pS pR sS sR : List Nat) (posInds : List (List Nat))
    (posLabs specLabs : List String)
    (hP : ValidGrid pS pR) (hS : ValidGrid sS sR)
    (hkP : pS.length ≤ npoints (sizeFn pS) pR) (hkS : sS.length ≤ npoints (sizeFn sS) sR)
    (hneP : 1 ≤ pS.length) (hneS : 1 ≤ sS.length)
    (hpos : transposeM posInds = gridMatrix pS pR)
    (hrows : posInds.length = npoints (sizeFn pS) pR) (hcols : ncols posInds = pS.length)
    (hshape : nd.shape = pS ++ sS) (hflat : nd.flat.length = nd.shape.prod)
    (hlp : posLabs.length = pS.length) (hls : specLabs.length = sS.length) (hnd : (posLabs ++ specLabs).Nodup) :
    ∃ R, reshapeFromNDimsBoth nd posInds (gridMatrix sS sR) = .ok R ∧
      reshapeToNDims R posInds (gridMatrix sS sR) posLabs specLabs false = .ok (nd, posLabs ++ specLabs) := by
  obtain ⟨R, h1, hRs, hRl, hRget⟩ := flatten_reads_coordinates nd pS pR sS sR posInds hP hS hkP hkS hneP hneS hpos hrows
    hcols hshape
  obtain ⟨nd', h2, hsh', hlen', hget'⟩ := coordinate_map R pS pR sS sR posInds posLabs specLabs hP hS hkP hkS hpos hRs hRl
    hlp hls hnd
  refine ⟨R, h1, ?_⟩
  rw [h2]
  congr 2
  apply ndarr_ext nd' nd (by rw [hsh', hshape]) (by rw [hlen', hsh']) hflat
  intro idx hb
  rw [hsh'] at hb
  obtain ⟨i1, i2, e, hb1, hb2⟩ := inBounds_split pS sS idx hb
  obtain ⟨r, hr, er⟩ := coords_surj pS pR hP i1 hb1
  obtain ⟨c, hc, ec⟩ := coords_surj sS sR hS i2 hb2
  rw [e, ← er, ← ec, hget' r c hr hc, hRget r c hr hc]

/-! ### one-sided requests: the missing side is taken slowest-to-fastest -/

/-- the heuristic orientation of a tall stored position matrix is its transpose -/
theorem orient_stored (posInds : List (List Nat)) (g : List (List Nat)) (hpos : transposeM posInds = g)
    (htall : posInds.length > ncols posInds) : orient posInds = g := by
  unfold orient; simp [htall, hpos]

/-- **Position matrix only.**  For a regular position grid with more points than dimensions and ANY N-D array
    of shape `pS ++ sS` whose trailing sizes are all >= 2: `reshape_from_n_dims(nd, h5_pos=...)` succeeds, and
    the element at (position indices of row r ++ idxS) lands in row r at column `ravelC sS idxS` - the
    trailing (spectroscopic) axes are flattened in C order, i.e. taken slowest-to-fastest, whatever the
    storage order of the position dimensions. -/
theorem flatten_pos_only (nd : NDArr α) (pS pR sS : List Nat) (posInds : List (List Nat))
    (hP : ValidGrid pS pR) (hkP : pS.length < npoints (sizeFn pS) pR) (hneP : 1 ≤ pS.length)
    (hneS : sS ≠ []) (hallS : ∀ s ∈ sS, 2 ≤ s)
    (hpos : transposeM posInds = gridMatrix pS pR)
    (hrows : posInds.length = npoints (sizeFn pS) pR) (hcols : ncols posInds = pS.length)
    (hshape : nd.shape = pS ++ sS) :
    ∃ R, reshapeFromNDimsOne nd posInds false = .ok R ∧ R.shape = [npoints (sizeFn pS) pR, sS.prod] ∧
      ∀ r idxS, r < npoints (sizeFn pS) pR → InBounds sS idxS →
        R.get [r, ravelC sS idxS] = nd.get (coords pS pR r (List.range pS.length) ++ idxS) := by
  have hkP' : pS.length ≤ npoints (sizeFn pS) pR := Nat.le_of_lt hkP
  have htall : posInds.length > ncols posInds := by rw [hrows, hcols]; exact hkP
  have hor := orient_stored posInds _ hpos htall
  have hpermP0 := (order_is_rate pS pR hP hkP').1
  have hpermP := hpermP0.trans hP.1
  have hordlen : (getSortOrder (gridMatrix pS pR)).length = pS.length := by rw [hpermP.length_eq, List.length_range]
  have hso : getSortOrder posInds = getSortOrder (gridMatrix pS pR) := by
    unfold getSortOrder; rw [hor, gridMatrix_orient pS pR hkP']
  have hdim : getDimensionality posInds (some (getSortOrder (gridMatrix pS pR))) =
      .ok ((getSortOrder (gridMatrix pS pR)).map (sizeFn pS)) := by
    have := dims_along pS pR _ hP hkP' hpermP
    unfold getDimensionality at this ⊢
    rw [hor]; rw [gridMatrix_orient pS pR hkP'] at this; exact this
  have hks : 1 ≤ sS.length := List.length_pos_iff.mpr hneS
  have hordS : (List.range sS.length).reverse.Perm (List.range sS.length) := List.reverse_perm _
  obtain ⟨htr, hshT, hflatT, hcore⟩ := transpose_reshape_core nd pS pR sS (List.range sS.length).reverse hP hkP' hordS hshape
  have hklen : nd.shape.length = pS.length + sS.length := by rw [hshape]; simp
  -- the dimension sizes found occur in the array shape
  have hall : ((getSortOrder (gridMatrix pS pR)).map (sizeFn pS)).all (fun x => nd.shape.contains x) = true := by
    rw [List.all_eq_true]
    intro x hx
    obtain ⟨d, hd, rfl⟩ := List.mem_map.mp hx
    have hdk : d < pS.length := List.mem_range.mp (hpermP.subset hd)
    rw [hshape]
    have : sizeFn pS d = pS[d] := by simp [sizeFn, List.getD_eq_getElem?_getD, List.getElem?_eq_getElem hdk]
    rw [this]
    simpa using Or.inl (List.getElem_mem hdk)
  have hdrop : nd.shape.drop ((getSortOrder (gridMatrix pS pR)).map (sizeFn pS)).length = sS := by
    rw [List.length_map, hordlen, hshape]; simp
  have hmk := makeIndices_eq_grid sS hneS hallS
  have hgl : (gridMatrix sS (List.range sS.length)).length = sS.length := by simp [gridMatrix]
  have hNS : npoints (sizeFn sS) (List.range sS.length) = sS.prod := by
    unfold npoints; conv => rhs; rw [sizes_eq_map sS]
  have hm : ((gridMatrix sS (List.range sS.length)).headD []).length = sS.prod := by
    rw [← hNS]; unfold gridMatrix
    cases hl : sS.length with
    | zero => omega
    | succ n => simp [List.range_succ_eq_map, gridRow]
  have hsoS := sortOrder_identity sS hallS
  have hsq : (ncols posInds + (gridMatrix sS (List.range sS.length)).length != nd.shape.length) = false := by
    rw [hcols, hgl, hklen]; simp
  refine ⟨(nd.transpose (sigmaOf pS.length (getSortOrder (gridMatrix pS pR)) (List.range sS.length).reverse)
      (Usid.Translate.inversePerm (pS.length + sS.length)
        (sigmaOf pS.length (getSortOrder (gridMatrix pS pR)) (List.range sS.length).reverse))).reshape
      [npoints (sizeFn pS) pR, sS.prod], ?_, rfl, ?_⟩
  · unfold reshapeFromNDimsOne
    have h2 : ¬ nd.shape.length < 2 := by rw [hklen]; omega
    simp only [h2, if_false, bind, Except.bind, pure, Except.pure, hso, hdim, hall, Bool.not_true, Bool.false_eq_true,
      hdrop, hmk, hsq, Bool.false_and, hpos, hsoS, hm, hrows]
    have htr' : transposeND nd ((getSortOrder (gridMatrix pS pR)).reverse ++
        (List.range sS.length).reverse.reverse.map (fun x => x + (getSortOrder (gridMatrix pS pR)).length)) =
        .ok (nd.transpose (sigmaOf pS.length (getSortOrder (gridMatrix pS pR)) (List.range sS.length).reverse)
          (Usid.Translate.inversePerm (pS.length + sS.length)
            (sigmaOf pS.length (getSortOrder (gridMatrix pS pR)) (List.range sS.length).reverse))) := by
      rw [hordlen]; exact htr
    rw [htr']
    simp only [reshapeND, hflatT, List.prod_cons, List.prod_nil, Nat.mul_one, bne_self_eq_false, Bool.false_eq_true, if_false]
  · intro r idxS hr hbS
    have := hcore r idxS hr hbS
    have hlenS := Usid.Translate.inBounds_length sS idxS hbS
    -- ravelling along the identity arrangement is the plain C-order flat index
    have e1 : (List.range sS.length).reverse.reverse.map (fun d => sS.getD d 1) = sS := by
      rw [List.reverse_reverse]; exact (sizes_eq_map sS).symm
    have e2 : (List.range sS.length).reverse.reverse.map (fun d => idxS.getD d 0) = idxS := by
      rw [List.reverse_reverse, hlenS]
      apply List.ext_getElem
      · simp
      · intro i h1 h2; simp [List.getD_eq_getElem?_getD, List.getElem?_eq_getElem h2]
    rw [e1, e2] at this
    exact this

/-- **Spectroscopic matrix only.**  The mirror image: for a regular spectroscopic grid (at most as many
    dimensions as points) and ANY N-D array of shape `pS ++ sS` whose leading sizes are all >= 2:
    `reshape_from_n_dims(nd, h5_spec=...)` succeeds, and the element at (idxP ++ spectroscopic indices of
    column c) lands in column c at row `ravelC pS idxP` - the leading (position) axes are flattened in C order. -/
theorem flatten_spec_only (nd : NDArr α) (pS sS sR : List Nat)
    (hS : ValidGrid sS sR) (hkS : sS.length ≤ npoints (sizeFn sS) sR) (hneS : 1 ≤ sS.length)
    (hneP : pS ≠ []) (hallP : ∀ s ∈ pS, 2 ≤ s) (hshape : nd.shape = pS ++ sS) :
    ∃ R, reshapeFromNDimsOne nd (gridMatrix sS sR) true = .ok R ∧ R.shape = [pS.prod, npoints (sizeFn sS) sR] ∧
      ∀ c idxP, c < npoints (sizeFn sS) sR → InBounds pS idxP →
        R.get [ravelC pS idxP, c] = nd.get (idxP ++ coords sS sR c (List.range sS.length)) := by
  have hpermS0 := (order_is_rate sS sR hS hkS).1
  have hpermS := hpermS0.trans hS.1
  have hordlenS : (getSortOrder (gridMatrix sS sR)).length = sS.length := by rw [hpermS.length_eq, List.length_range]
  have hdim := dims_along sS sR _ hS hkS hpermS
  have hkp : 1 ≤ pS.length := List.length_pos_iff.mpr hneP
  have hordP : (List.range pS.length).reverse.Perm (List.range pS.length) := List.reverse_perm _
  obtain ⟨htr, hflatT, hcore⟩ := transpose_reshape_core_spec nd pS (List.range pS.length).reverse sS sR hS hkS hordP hshape
  have hklen : nd.shape.length = pS.length + sS.length := by rw [hshape]; simp
  have hall : ((getSortOrder (gridMatrix sS sR)).map (sizeFn sS)).all (fun x => nd.shape.contains x) = true := by
    rw [List.all_eq_true]
    intro x hx
    obtain ⟨d, hd, rfl⟩ := List.mem_map.mp hx
    have hdk : d < sS.length := List.mem_range.mp (hpermS.subset hd)
    rw [hshape]
    have : sizeFn sS d = sS[d] := by simp [sizeFn, List.getD_eq_getElem?_getD, List.getElem?_eq_getElem hdk]
    rw [this]
    simpa using Or.inr (List.getElem_mem hdk)
  have htake : nd.shape.take (nd.shape.length - ((getSortOrder (gridMatrix sS sR)).map (sizeFn sS)).length) = pS := by
    rw [List.length_map, hordlenS, hklen, hshape]; simp
  have hmk := makeIndices_eq_grid pS hneP hallP
  have hgl : (gridMatrix pS (List.range pS.length)).length = pS.length := by simp [gridMatrix]
  have hglS : (gridMatrix sS sR).length = sS.length := by simp [gridMatrix]
  have hNP : npoints (sizeFn pS) (List.range pS.length) = pS.prod := by
    unfold npoints; conv => rhs; rw [sizes_eq_map pS]
  have hn : ((gridMatrix pS (List.range pS.length)).headD []).length = pS.prod := by
    rw [← hNP]; unfold gridMatrix
    cases hl : pS.length with
    | zero => omega
    | succ n => simp [List.range_succ_eq_map, gridRow]
  have hm : ncols (gridMatrix sS sR) = npoints (sizeFn sS) sR := by
    unfold ncols gridMatrix
    cases hl : sS.length with
    | zero => omega
    | succ n => simp [List.range_succ_eq_map, gridRow]
  have hsoP := sortOrder_identity pS hallP
  have hsq : ((gridMatrix pS (List.range pS.length)).length + (gridMatrix sS sR).length != nd.shape.length) = false := by
    rw [hgl, hglS, hklen]; simp
  refine ⟨(nd.transpose (sigmaOf pS.length (List.range pS.length).reverse (getSortOrder (gridMatrix sS sR)))
      (Usid.Translate.inversePerm (pS.length + sS.length)
        (sigmaOf pS.length (List.range pS.length).reverse (getSortOrder (gridMatrix sS sR))))).reshape
      [pS.prod, npoints (sizeFn sS) sR], ?_, rfl, ?_⟩
  · unfold reshapeFromNDimsOne
    have h2 : ¬ nd.shape.length < 2 := by rw [hklen]; omega
    simp only [h2, if_false, bind, Except.bind, pure, Except.pure, hdim, hall, Bool.not_true, Bool.false_eq_true,
      htake, hmk, hsq, Bool.false_and, hsoP, hn, hm, if_true]
    have htr' : transposeND nd ((List.range pS.length).reverse.reverse ++
        (getSortOrder (gridMatrix sS sR)).reverse.map (fun x => x + (List.range pS.length).reverse.length)) =
        .ok (nd.transpose (sigmaOf pS.length (List.range pS.length).reverse (getSortOrder (gridMatrix sS sR)))
          (Usid.Translate.inversePerm (pS.length + sS.length)
            (sigmaOf pS.length (List.range pS.length).reverse (getSortOrder (gridMatrix sS sR))))) := by
      rw [List.length_reverse, List.length_range]; exact htr
    rw [htr']
    simp only [reshapeND, hflatT, List.prod_cons, List.prod_nil, Nat.mul_one, bne_self_eq_false, Bool.false_eq_true, if_false]
  · intro c idxP hc hbP
    have := hcore c idxP hc hbP
    have hlenP := Usid.Translate.inBounds_length pS idxP hbP
    have e1 : (List.range pS.length).reverse.reverse.map (fun d => pS.getD d 1) = pS := by
      rw [List.reverse_reverse]; exact (sizes_eq_map pS).symm
    have e2 : (List.range pS.length).reverse.reverse.map (fun d => idxP.getD d 0) = idxP := by
      rw [List.reverse_reverse, hlenP]
      apply List.ext_getElem
      · simp
      · intro i h1 h2; simp [List.getD_eq_getElem?_getD, List.getElem?_eq_getElem h2]
    rw [e1, e2] at this
    exact this

/-- **A squeezed single-point position side.**  When the position side is the one-point placeholder
    (`[[0]]`) and the N-D array carries no axis for it (its shape is the spectroscopic sizes alone, at least
    two of them), the call succeeds, returns a 1 x M matrix and its element (0, c) is the array element at
    the spectroscopic indices of column c. -/
theorem flatten_squeezed_pos (nd : NDArr α) (sS sR : List Nat)
    (hS : ValidGrid sS sR) (hkS : sS.length ≤ npoints (sizeFn sS) sR) (hneS : 2 ≤ sS.length)
    (hshape : nd.shape = sS) :
    ∃ R, reshapeFromNDimsBoth nd [[0]] (gridMatrix sS sR) = .ok R ∧ R.shape = [1, npoints (sizeFn sS) sR] ∧
      ∀ c, c < npoints (sizeFn sS) sR →
        R.get [0, c] = nd.get (coords sS sR c (List.range sS.length)) := by
  have hshape' : nd.shape = ([] : List Nat) ++ sS := by simpa using hshape
  have hordP : ([] : List Nat).Perm (List.range ([] : List Nat).length) := by simp
  obtain ⟨htr, hflatT, hcore⟩ := transpose_reshape_core_spec nd [] [] sS sR hS hkS hordP hshape'
  generalize nd.transpose _ _ = T at htr hflatT hcore
  have hklen : nd.shape.length = sS.length := by rw [hshape]
  have hglS : (gridMatrix sS sR).length = sS.length := by simp [gridMatrix]
  have hm : ncols (gridMatrix sS sR) = npoints (sizeFn sS) sR := by
    unfold ncols gridMatrix
    cases hl : sS.length with
    | zero => omega
    | succ n => simp [List.range_succ_eq_map, gridRow]
  have hprod : nd.shape.prod = npoints (sizeFn sS) sR := by rw [hshape]; exact prod_sizes sS sR hS
  have hMpos : 0 < npoints (sizeFn sS) sR := by
    obtain ⟨_, hpos, _⟩ := valid_facts sS sR hS
    exact prod_pos _ sR (fun e he => (hpos e he).2)
  refine ⟨T.reshape [1, npoints (sizeFn sS) sR], ?_, rfl, ?_⟩
  · unfold reshapeFromNDimsBoth
    have h2 : ¬ sS.length < 2 := by omega
    have hkp : ncols ([[0]] : List (List Nat)) = 1 := rfl
    have hsq : (1 + sS.length != sS.length) = true := by simp
    have hs1 : (sS.length * npoints (sizeFn sS) sR == 1) = false := by
      have : 2 ≤ sS.length * npoints (sizeFn sS) sR :=
        Nat.le_trans hneS (Nat.le_mul_of_pos_right _ hMpos)
      simp; omega
    have htr' : transposeND nd ((getSortOrder (gridMatrix sS sR)).reverse.map (fun x => x)) = .ok T := by
      have : (getSortOrder (gridMatrix sS sR)).reverse.map (fun x => x) =
          sigmaOf ([] : List Nat).length [] (getSortOrder (gridMatrix sS sR)) := by simp [sigmaOf]
      rw [this]; exact htr
    have hfl : T.flat.length = npoints (sizeFn sS) sR := by
      have := hflatT; simpa using this
    simp only [hklen, h2, if_false, bind, Except.bind, pure, Except.pure, hkp, hglS, hm, hprod, List.length_cons,
      List.length_nil, Nat.zero_add, Nat.one_mul, bne_self_eq_false, Bool.false_eq_true, hsq, hs1, Nat.mul_one,
      beq_self_eq_true, Bool.true_or, Bool.not_true, Bool.and_false, Bool.and_true, Bool.and_self, if_true,
      List.reverse_nil, List.nil_append, Nat.add_zero, htr']
    simp only [reshapeND, hfl, List.prod_cons, List.prod_nil, Nat.mul_one, Nat.one_mul, bne_self_eq_false,
      Bool.false_eq_true, if_false]
  · intro c hc
    have := hcore c [] hc (by simp [Usid.InBounds])
    simpa [ravelC] using this

/-- **A squeezed single-point spectroscopic side**: the mirror image - the result is N x 1 and its element
    (r, 0) is the array element at the position indices of row r. -/
theorem flatten_squeezed_spec (nd : NDArr α) (pS pR : List Nat) (posInds : List (List Nat))
    (hP : ValidGrid pS pR) (hkP : pS.length ≤ npoints (sizeFn pS) pR) (hneP : 2 ≤ pS.length)
    (hpos : transposeM posInds = gridMatrix pS pR)
    (hrows : posInds.length = npoints (sizeFn pS) pR) (hcols : ncols posInds = pS.length)
    (hshape : nd.shape = pS) :
    ∃ R, reshapeFromNDimsBoth nd posInds [[0]] = .ok R ∧ R.shape = [npoints (sizeFn pS) pR, 1] ∧
      ∀ r, r < npoints (sizeFn pS) pR →
        R.get [r, 0] = nd.get (coords pS pR r (List.range pS.length)) := by
  have hshape' : nd.shape = pS ++ ([] : List Nat) := by simpa using hshape
  have hordS : ([] : List Nat).Perm (List.range ([] : List Nat).length) := by simp
  obtain ⟨htr, _, hflatT, hcore⟩ := transpose_reshape_core nd pS pR [] [] hP hkP hordS hshape'
  generalize nd.transpose _ _ = T at htr hflatT hcore
  have hklen : nd.shape.length = pS.length := by rw [hshape]
  have hprod : nd.shape.prod = npoints (sizeFn pS) pR := by rw [hshape]; exact prod_sizes pS pR hP
  have hNpos : 0 < npoints (sizeFn pS) pR := by
    obtain ⟨_, hpos', _⟩ := valid_facts pS pR hP
    exact prod_pos _ pR (fun e he => (hpos' e he).2)
  refine ⟨T.reshape [npoints (sizeFn pS) pR, 1], ?_, rfl, ?_⟩
  · unfold reshapeFromNDimsBoth
    have h2 : ¬ pS.length < 2 := by omega
    have hks : ncols ([[0]] : List (List Nat)) = 1 := rfl
    have hsq : (pS.length + 1 != pS.length) = true := by simp
    have hp1 : (npoints (sizeFn pS) pR * pS.length == 1) = false := by
      have : 2 ≤ npoints (sizeFn pS) pR * pS.length :=
        Nat.le_trans hneP (Nat.le_mul_of_pos_left _ hNpos)
      simp; omega
    have htr' : transposeND nd (getSortOrder (gridMatrix pS pR)).reverse = .ok T := by
      have : (getSortOrder (gridMatrix pS pR)).reverse = sigmaOf pS.length (getSortOrder (gridMatrix pS pR)) [] := by
        simp [sigmaOf]
      rw [this]; exact htr
    have hfl : T.flat.length = npoints (sizeFn pS) pR := by
      have := hflatT; simpa using this
    simp only [hklen, h2, if_false, bind, Except.bind, pure, Except.pure, hks, hrows, hcols, hprod, List.length_cons,
      List.length_nil, Nat.zero_add, Nat.mul_one, bne_self_eq_false, Bool.false_eq_true, hsq, hp1,
      beq_self_eq_true, Bool.or_true, Bool.not_true, Bool.and_false, Bool.and_true, Bool.and_self, if_true,
      List.reverse_nil, List.map_nil, List.append_nil, hpos, htr']
    simp only [reshapeND, hfl, List.prod_cons, List.prod_nil, Nat.mul_one, bne_self_eq_false,
      Bool.false_eq_true, if_false]
  · intro r hr
    have := hcore r [] hr (by simp [Usid.InBounds])
    simpa [ravelC] using this

end Usid.C10
