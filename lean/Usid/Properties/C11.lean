import Usid.Model.SliceTo
/-! C11 — slice-to-dataset preserves every selected element with its coordinates.
    (Structural theorems; the coordinate-map theorem composes C07, C09 and C08 and is in progress.) -/
namespace Usid.C11
open Usid Usid.Slice Usid.SliceTo Usid.Anc

variable {α : Type} [Inhabited α]

/-- A side none of whose dimensions is named in the slicing dictionary keeps referring to the source's
    ancillary datasets; a sliced side gets freshly written ancillaries, built by the ancillary writer
    (fastest-first flag) from the dimensions that remain on the selected rows / columns. -/
theorem sides (main : NDArr α) (pos specT : Side) (psz ssz : List Nat) (sd : SliceDict) (r : Result α)
    (h : sliceToDataset main pos specT psz ssz sd = .ok r) :
    ∃ rows cols pd spd,
      posSpecSlices pos.inds specT.inds pos.labels specT.labels psz ssz sd = .ok (rows, cols) ∧
      dimsForSlice pos rows = .ok pd ∧ dimsForSlice specT cols = .ok spd ∧
      r.pos = (if sd.any (fun kv => pos.labels.contains kv.1) then NewSide.written (writeIndVal pd false) else .reused) ∧
      r.spec = (if sd.any (fun kv => specT.labels.contains kv.1) then NewSide.written (writeIndVal spd false) else .reused) ∧
      slice2D main pos.inds specT.inds pos.labels specT.labels psz ssz sd false = .ok r.data := by
  unfold sliceToDataset at h
  simp only [bind, Except.bind, pure, Except.pure] at h
  cases hrc : posSpecSlices pos.inds specT.inds pos.labels specT.labels psz ssz sd with
  | error e => simp [hrc] at h
  | ok rc =>
    obtain ⟨rows, cols⟩ := rc
    simp only [hrc] at h
    cases hpd : dimsForSlice pos rows with
    | error e => simp [hpd] at h
    | ok pd =>
      simp only [hpd] at h
      cases hsd : dimsForSlice specT cols with
      | error e => simp [hsd] at h
      | ok spd =>
        simp only [hsd] at h
        cases hdat : slice2D main pos.inds specT.inds pos.labels specT.labels psz ssz sd false with
        | error e => simp [hdat] at h
        | ok dat =>
          simp only [hdat] at h
          split at h
          · cases h
          · split at h
            · cases h
            · injection h with h
              subst h
              exact ⟨rows, cols, pd, spd, rfl, hpd, hsd, rfl, rfl, rfl⟩

/-- On a sliced side, dimensions left with a single value disappear; when none is left a placeholder
    dimension (`arb.`) remains so that the new dataset still has a position / spectroscopic dimension. -/
theorem placeholder (s : Side) (rows : List Nat) (uv : List (String × List Int))
    (huv : Usid.UV.getUnitValues (pickRows s.inds rows) (pickRows s.vals rows) s.labels none (some false) = .ok uv)
    (hnone : ∀ d, d < s.labels.length → ((uv.lookup (s.labels.getD d "")).getD []).length < 2) :
    dimsForSlice s rows = .ok [{ name := "arb.", units := "a. u.", values := [4] }] := by
  have hk : (List.range s.labels.length).filter
      (fun d => decide (((uv.lookup (s.labels.getD d "")).getD []).length ≥ 2)) = [] := by
    rw [List.filter_eq_nil_iff]
    intro d hd
    have := hnone d (List.mem_range.mp hd)
    simp only [List.getD_eq_getElem?_getD] at this
    simp; omega
  unfold dimsForSlice
  simp only [huv, bind, Except.bind, pure, Except.pure, hk, List.isEmpty_nil, if_true]

/-- The data of the new dataset is the 2-D slice of C07: exactly the selected rows and columns, in original
    order (see `Usid.C07.rows_exact` and `Usid.C07.eager_fixup_identity`). -/
theorem rows_cols_are_the_selection (main : NDArr α) (pos specT : Side) (psz ssz : List Nat) (sd : SliceDict)
    (r : Result α) (h : sliceToDataset main pos specT psz ssz sd = .ok r) :
    slice2D main pos.inds specT.inds pos.labels specT.labels psz ssz sd false = .ok r.data := by
  obtain ⟨_, _, _, _, _, _, _, _, _, hd⟩ := sides main pos specT psz ssz sd r h
  exact hd

end Usid.C11
