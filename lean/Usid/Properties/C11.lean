import Usid.Proofs.SliceTo
import Usid.Proofs.SliceIdx
import Usid.Properties.C07
/-! C11 — slice-to-dataset preserves every selected element with its coordinates.
    Structural theorems about `sliceToDataset` and the coordinate theorems for a sliced regular-grid side. -/
namespace Usid.C11
open Usid Usid.Slice Usid.SliceTo Usid.Anc

variable {α : Type} [Inhabited α]

/-- A side none of whose dimensions is named in the slicing dictionary keeps referring to the source's
    ancillary datasets; a sliced side gets freshly written ancillaries, built by the ancillary writer
    (fastest-first flag) from the dimensions that remain on the selected rows / columns. -/
theorem sides (main : NDArr α) (pos specT : Side) (psz ssz : List Nat) (sd : SliceDict) (r : Result α)
    (h : sliceToDataset main pos specT psz ssz sd = .ok r) :
    ∃ rows cols pd spd,
      posSpecSlices pos.inds specT.inds pos.labels specT.labels psz ssz sd = .ok (rows, cols) ∧
      dimsForSlice pos rows = .ok pd ∧ dimsForSlice specT cols = .ok spd ∧
      r.pos = (if sd.any (fun kv => pos.labels.contains kv.1) then NewSide.written (writeIndVal pd false) else .reused) ∧
      r.spec = (if sd.any (fun kv => specT.labels.contains kv.1) then NewSide.written (writeIndVal spd false) else .reused) ∧
      slice2D main pos.inds specT.inds pos.labels specT.labels psz ssz sd false = .ok r.data := by
  unfold sliceToDataset at h
  simp only [bind, Except.bind, pure, Except.pure] at h
  cases hrc : posSpecSlices pos.inds specT.inds pos.labels specT.labels psz ssz sd with
  | error e => simp [hrc] at h
  | ok rc =>
    obtain ⟨rows, cols⟩ := rc
    simp only [hrc] at h
    cases hpd : dimsForSlice pos rows with
    | error e => simp [hpd] at h
    | ok pd =>
      simp only [hpd] at h
      cases hsd : dimsForSlice specT cols with
      | error e => simp [hsd] at h
      | ok spd =>
        simp only [hsd] at h
        cases hdat : slice2D main pos.inds specT.inds pos.labels specT.labels psz ssz sd false with
        | error e => simp [hdat] at h
        | ok dat =>
          simp only [hdat] at h
          split at h
          · cases h
          · split at h
            · cases h
            · injection h with h
              subst h
              exact ⟨rows, cols, pd, spd, rfl, hpd, hsd, rfl, rfl, rfl⟩

/-- On a sliced side, dimensions left with a single value disappear; when none is left a placeholder
    dimension (`arb.`) remains so that the new dataset still has a position / spectroscopic dimension. -/
theorem placeholder (s : Side) (rows : List Nat) (uv : List (String × List Int))
    (huv : Usid.UV.getUnitValues (pickRows s.inds rows) (pickRows s.vals rows) s.labels none (some false) = .ok uv)
    (hnone : ∀ d, d < s.labels.length → ((uv.lookup (s.labels.getD d "")).getD []).length < 2) :
    dimsForSlice s rows = .ok [{ name := "arb.", units := "a. u.", values := [4] }] := by
  have hk : (List.range s.labels.length).filter
      (fun d => decide (((uv.lookup (s.labels.getD d "")).getD []).length ≥ 2)) = [] := by
    rw [List.filter_eq_nil_iff]
    intro d hd
    have := hnone d (List.mem_range.mp hd)
    simp only [List.getD_eq_getElem?_getD] at this
    simp; omega
  unfold dimsForSlice
  simp only [huv, bind, Except.bind, pure, Except.pure, hk, List.isEmpty_nil, if_true]

/-- The data of the new dataset is the 2-D slice of C07: exactly the selected rows and columns, in original
    order (see `Usid.C07.rows_exact` and `Usid.C07.eager_fixup_identity`). -/
theorem rows_cols_are_the_selection (main : NDArr α) (pos specT : Side) (psz ssz : List Nat) (sd : SliceDict)
    (r : Result α) (h : sliceToDataset main pos specT psz ssz sd = .ok r) :
    slice2D main pos.inds specT.inds pos.labels specT.labels psz ssz sd false = .ok r.data := by
  obtain ⟨_, _, _, _, _, _, _, _, _, hd⟩ := sides main pos specT psz ssz sd r h
  exact hd

/-! ### a sliced side of a regular grid keeps every selected element under its coordinates -/
open Usid.Grid Usid.SubGrid

/-- **The selected rows form a sub-grid.**  For every regular grid (any sizes, any storage permutation `rate`
    of the change rates) and ANY per-dimension selection lists: the rows returned by the 2-D path, in
    increasing order, are the points of the sub-grid enumerated with the same rate order, and at the i-th of
    them the index of every dimension is its selected index number (i / sub-stride % sub-size). -/
theorem selected_rows_subgrid (sz : Nat → Nat) (rate : List Nat) (k : Nat) (sels : List (List Nat))
    (hperm : rate.Perm (List.range k)) (hk : sels.length = k) :
    let p := selPred sels
    selectedRows (pointMatrix sz rate k) sels = (List.range (rate.map (s' sz p)).prod).map (rho sz p rate) ∧
    ∀ i d, d ∈ rate → i < (rate.map (s' sz p)).prod →
      gridIdx sz rate (rho sz p rate i) d = (L sz p d).getD (i / strideBefore (s' sz p) rate d % s' sz p d) 0 := by
  intro p
  exact ⟨selectedRows_eq sz rate k sels hperm hk,
    fun i d hd hi => gridIdx_rho sz p rate (hperm.nodup_iff.mpr List.nodup_range) i d hd hi⟩

/-- **The dimensions of a sliced side.**  With distinct labels and at least one selected index per dimension,
    `_get_dims_for_slice` + `order_fast_to_slow` hand the writer exactly the dimensions that remain
    multi-valued, in rate order (fastest first, whatever the storage order of the columns), each with its
    label, unit and the reference values at its selected indices; the `arb.` placeholder when none remains. -/
theorem sliced_side_dims (sz : Nat → Nat) (rate : List Nat) (k : Nat) (V : Nat → List Int) (sels : List (List Nat))
    (labels units : List String) (hperm : rate.Perm (List.range k)) (hk : sels.length = k) (hkpos : 0 < k)
    (hl : labels.length = k) (hnd : labels.Nodup) (hsel : ∀ d ∈ rate, 0 < subSize sz sels d) :
    dimsForSlice ⟨labels, units, pointMatrix sz rate k, pointValues sz rate k V⟩
        (selectedRows (pointMatrix sz rate k) sels) =
      .ok (if (keptRate sz rate sels).isEmpty then [{ name := "arb.", units := "a. u.", values := [4] }]
           else (keptRate sz rate sels).map (fun d =>
             { name := labels.getD d "", units := units.getD d "", values := Wsel sz (selPred sels) V d })) :=
  dimsForSlice_grid sz rate k V sels labels units hperm hk hkpos hl hnd hsel

/-- **Coordinates are preserved.**  In the ancillaries freshly written for a sliced side
    (`write_ind_val_dsets` of the dimensions above, fastest-first flag), every remaining dimension `d` has a
    stored row carrying its label and unit, and at column i - the i-th selected row / column of the source, in
    increasing order, which is where the 2-D slice puts that row's data (C07 `slice2D_elements`) - its value is
    the source's value of `d` there.  Hence every selected element keeps the value of every remaining
    dimension. -/
theorem sliced_side_coordinates (sz : Nat → Nat) (rate : List Nat) (k : Nat) (V : Nat → List Int) (sels : List (List Nat))
    (labels units : List String) (hperm : rate.Perm (List.range k)) (hk : sels.length = k)
    (hsel : ∀ d ∈ rate, 0 < subSize sz sels d) (d : Nat) (hd : d ∈ keptRate sz rate sels) :
    let dims := (keptRate sz rate sels).map (fun d =>
      ({ name := labels.getD d "", units := units.getD d "", values := Wsel sz (selPred sels) V d } : Dim))
    let w := writeIndVal dims false
    let rows := selectedRows (pointMatrix sz rate k) sels
    ∃ (j : Nat) (rv : List Int), w.labels[j]? = some (labels.getD d "") ∧ w.units[j]? = some (units.getD d "") ∧
      w.values[j]? = some rv ∧
      ∀ i, i < rows.length → rv[i]? = some (((pointValues sz rate k V).getD (rows.getD i 0) []).getD d 0) :=
  written_side_values sz rate k V sels labels units hperm hk hsel d hd

/-- a non-empty selection of in-range indices keeps at least one index -/
theorem subSize_pos (sz : Nat → Nat) (sels : List (List Nat)) (d : Nat) (x : Nat)
    (hx : x ∈ sels.getD d []) (hlt : x < sz d) : 0 < subSize sz sels d := by
  have : x ∈ L sz (selPred sels) d := by
    unfold L selPred
    exact List.mem_filter.mpr ⟨List.mem_range.mpr hlt, by simpa using hx⟩
  exact List.length_pos_iff.mpr (List.ne_nil_of_mem this)

/-- **End to end, position side.**  Whenever `slice_to_dataset` is accepted on a dataset whose position side is
    a regular grid (any sizes >= 1, any storage permutation, distinct labels): there are per-dimension
    selections `ps` - the whole range, or the accepted expansion of the dimension's selector - such that the
    returned rows are the selected rows of the grid, every dimension keeps at least one index (so the
    hypothesis of the coordinate theorems is discharged), and a sliced position side is exactly
    `write_ind_val_dsets` of the multi-valued dimensions in rate order (fastest first) with their selected
    reference values (whose coordinates `sliced_side_coordinates` describes); an unsliced one is reused. -/
theorem position_side_end_to_end (main : NDArr α) (specT : Side) (psz ssz : List Nat) (sd : SliceDict) (r : Result α)
    (rate : List Nat) (V : Nat → List Int) (labels units : List String)
    (hperm : rate.Perm (List.range psz.length)) (hkpos : 0 < psz.length) (hsz : ∀ s ∈ psz, 1 ≤ s)
    (hl : labels.length = psz.length) (hnd : labels.Nodup)
    (h : sliceToDataset main ⟨labels, units, pointMatrix (fun d => psz.getD d 0) rate psz.length,
        pointValues (fun d => psz.getD d 0) rate psz.length V⟩ specT psz ssz sd = .ok r) :
    ∃ ps cols, ps.length = psz.length ∧
      posSpecSlices (pointMatrix (fun d => psz.getD d 0) rate psz.length) specT.inds labels specT.labels psz ssz sd =
        .ok (selectedRows (pointMatrix (fun d => psz.getD d 0) rate psz.length) ps, cols) ∧
      (∀ d ∈ rate, 0 < subSize (fun d => psz.getD d 0) ps d) ∧
      r.pos = (if sd.any (fun kv => labels.contains kv.1) then
          NewSide.written (writeIndVal
            (if (keptRate (fun d => psz.getD d 0) rate ps).isEmpty then [{ name := "arb.", units := "a. u.", values := [4] }]
             else (keptRate (fun d => psz.getD d 0) rate ps).map (fun d =>
               { name := labels.getD d "", units := units.getD d "",
                 values := Wsel (fun d => psz.getD d 0) (selPred ps) V d })) false)
        else .reused) := by
  obtain ⟨rows, cols, pd, spd, hrc, hpd, _, hpos, _, _⟩ := sides main _ specT psz ssz sd r h
  obtain ⟨ps, ss, hrows, _, hpl, _, hpsel, _⟩ := Usid.C07.posSpecSlices_selected _ _ _ _ _ _ _ rows cols hrc
  simp only at hpl hpsel hrows hpd hpos hrc
  have hpl' : ps.length = psz.length := by rw [hpl, hl]
  have hsel : ∀ d ∈ rate, 0 < subSize (fun d => psz.getD d 0) ps d := by
    intro d hd
    have hdk : d < psz.length := List.mem_range.mp (hperm.subset hd)
    have hspos : 0 < psz.getD d 0 := by
      rw [List.getD_eq_getElem?_getD, List.getElem?_eq_getElem hdk]; exact hsz _ (List.getElem_mem hdk)
    have hd1 : d < labels.length := by rw [hl]; exact hdk
    have hd2 : d < ps.length := by rw [hpl']; exact hdk
    have hg : ps.getD d [] = ps[d] := by simp [List.getD_eq_getElem?_getD, List.getElem?_eq_getElem hd2]
    have := hpsel d hd1 hd2
    split at this
    · -- not mentioned: the whole range
      apply subSize_pos _ ps d 0
      · rw [hg, this]; exact List.mem_range.mpr hspos
      · exact hspos
    · rename_i s hlk
      obtain ⟨hne, hlt⟩ := expandSel_ok _ s _ this
      obtain ⟨x, hx⟩ := List.exists_mem_of_ne_nil _ hne
      exact subSize_pos _ ps d x (by rw [hg]; exact hx) (hlt x hx)
  have hdims := sliced_side_dims (fun d => psz.getD d 0) rate psz.length V ps labels units hperm hpl' hkpos hl hnd hsel
  rw [← hrows, hpd] at hdims
  injection hdims with hdims
  refine ⟨ps, cols, hpl', by rw [← hrows]; exact hrc, hsel, ?_⟩
  rw [hpos, hdims]

/-- **End to end, spectroscopic side** (the model keeps the spectroscopic matrices transposed, one row per
    spectroscopic point, so the statement is the mirror image of the position one).  Whenever `slice_to_dataset` is accepted on a dataset whose position side is
    a regular grid (any sizes >= 1, any storage permutation, distinct labels): there are per-dimension
    selections `ps` - the whole range, or the accepted expansion of the dimension's selector - such that the
    returned rows are the selected rows of the grid, every dimension keeps at least one index (so the
    hypothesis of the coordinate theorems is discharged), and a sliced position side is exactly
    `write_ind_val_dsets` of the multi-valued dimensions in rate order (fastest first) with their selected
    reference values (whose coordinates `sliced_side_coordinates` describes); an unsliced one is reused. -/
theorem spectroscopic_side_end_to_end (main : NDArr α) (pos : Side) (psz ssz : List Nat) (sd : SliceDict) (r : Result α)
    (rate : List Nat) (V : Nat → List Int) (labels units : List String)
    (hperm : rate.Perm (List.range ssz.length)) (hkpos : 0 < ssz.length) (hsz : ∀ s ∈ ssz, 1 ≤ s)
    (hl : labels.length = ssz.length) (hnd : labels.Nodup)
    (h : sliceToDataset main pos ⟨labels, units, pointMatrix (fun d => ssz.getD d 0) rate ssz.length,
        pointValues (fun d => ssz.getD d 0) rate ssz.length V⟩ psz ssz sd = .ok r) :
    ∃ ss rows, ss.length = ssz.length ∧
      posSpecSlices pos.inds (pointMatrix (fun d => ssz.getD d 0) rate ssz.length) pos.labels labels psz ssz sd =
        .ok (rows, selectedRows (pointMatrix (fun d => ssz.getD d 0) rate ssz.length) ss) ∧
      (∀ d ∈ rate, 0 < subSize (fun d => ssz.getD d 0) ss d) ∧
      r.spec = (if sd.any (fun kv => labels.contains kv.1) then
          NewSide.written (writeIndVal
            (if (keptRate (fun d => ssz.getD d 0) rate ss).isEmpty then [{ name := "arb.", units := "a. u.", values := [4] }]
             else (keptRate (fun d => ssz.getD d 0) rate ss).map (fun d =>
               { name := labels.getD d "", units := units.getD d "",
                 values := Wsel (fun d => ssz.getD d 0) (selPred ss) V d })) false)
        else .reused) := by
  obtain ⟨rows, cols, pd, spd, hrc, _, hspd, _, hspec, _⟩ := sides main pos _ psz ssz sd r h
  obtain ⟨ps, ss, _, hcols, _, hsl, _, hssel⟩ := Usid.C07.posSpecSlices_selected _ _ _ _ _ _ _ rows cols hrc
  simp only at hsl hssel hcols hspd hspec hrc
  have hsl' : ss.length = ssz.length := by rw [hsl, hl]
  have hsel : ∀ d ∈ rate, 0 < subSize (fun d => ssz.getD d 0) ss d := by
    intro d hd
    have hdk : d < ssz.length := List.mem_range.mp (hperm.subset hd)
    have hspos : 0 < ssz.getD d 0 := by
      rw [List.getD_eq_getElem?_getD, List.getElem?_eq_getElem hdk]; exact hsz _ (List.getElem_mem hdk)
    have hd1 : d < labels.length := by rw [hl]; exact hdk
    have hd2 : d < ss.length := by rw [hsl']; exact hdk
    have hg : ss.getD d [] = ss[d] := by simp [List.getD_eq_getElem?_getD, List.getElem?_eq_getElem hd2]
    have := hssel d hd1 hd2
    split at this
    · apply subSize_pos _ ss d 0
      · rw [hg, this]; exact List.mem_range.mpr hspos
      · exact hspos
    · rename_i s hlk
      obtain ⟨hne, hlt⟩ := expandSel_ok _ s _ this
      obtain ⟨x, hx⟩ := List.exists_mem_of_ne_nil _ hne
      exact subSize_pos _ ss d x (by rw [hg]; exact hx) (hlt x hx)
  have hdims := sliced_side_dims (fun d => ssz.getD d 0) rate ssz.length V ss labels units hperm hsl' hkpos hl hnd hsel
  rw [← hcols, hspd] at hdims
  injection hdims with hdims
  refine ⟨ss, rows, hsl', by rw [← hcols]; exact hrc, hsel, ?_⟩
  rw [hspec, hdims]

-- non-vacuity: a 3 x 2 grid stored with the second dimension fastest, selecting indices {0, 2} of the first
example : selectedRows (pointMatrix (fun d => [3, 2].getD d 1) [1, 0] 2) [[0, 2], [0, 1]] = [0, 1, 4, 5] ∧
    keptRate (fun d => [3, 2].getD d 1) [1, 0] [[0, 2], [0, 1]] = [1, 0] := by decide

end Usid.C11
