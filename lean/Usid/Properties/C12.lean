import Usid.Model.Reduce
/-! C12 — reducing named dimensions equals the axis reduction, in memory and on file.
    (Structural theorems; the multiset / coordinate theorems are in progress.) -/
namespace Usid.C12
open Usid Usid.Reduce Usid.Slice

theorem cartesian_length : ∀ (ls : List (List Nat)), (cartesian ls).length = (ls.map List.length).prod
  | [] => rfl
  | l :: ls => by
    simp only [cartesian, List.map_cons, List.prod_cons]
    rw [← cartesian_length ls]
    induction l with
    | nil => simp
    | cons x xs ih =>
      simp only [List.flatMap_cons, List.length_append, List.length_map, List.length_cons]
      rw [ih]; rw [Nat.add_mul, Nat.one_mul, Nat.add_comm]

theorem cartesian_elem_length : ∀ (ls : List (List Nat)) (idx : List Nat), idx ∈ cartesian ls → idx.length = ls.length
  | [], idx, h => by simp [cartesian] at h; simp [h]
  | l :: ls, idx, h => by
    simp only [cartesian, List.mem_flatMap, List.mem_map] at h
    obtain ⟨i, _, rest, hrest, rfl⟩ := h
    simp [cartesian_elem_length ls rest hrest]

variable {α : Type} [Inhabited α]

/-- The reduced array has one axis per remaining dimension with that dimension's size, one cell per
    combination of the remaining coordinates, and every cell collects exactly ∏(reduced sizes) source
    elements — for any N-D view and any set of axes. -/
theorem group_sizes (view : NDArr α) (axes : List Nat) :
    let g := reduceGroups view axes
    let rank := view.shape.length
    let keep := (List.range rank).filter (fun a => !axes.contains a)
    let red := (List.range rank).filter (fun a => axes.contains a)
    g.shape = keep.map (fun a => view.shape.getD a 0) ∧
    g.flat.length = (keep.map (fun a => view.shape.getD a 0)).prod ∧
    ∀ cell ∈ g.flat, cell.length = (red.map (fun a => view.shape.getD a 0)).prod := by
  intro g rank keep red
  refine ⟨rfl, ?_, ?_⟩
  · show (List.map _ (cartesian _)).length = _
    rw [List.length_map, cartesian_length]
    simp [List.map_map, Function.comp_def, keep, rank]
  · intro cell hc
    simp only [g, reduceGroups, List.mem_map] at hc
    obtain ⟨ki, _, rfl⟩ := hc
    rw [List.length_map, cartesian_length]
    simp [List.map_map, Function.comp_def, red, rank]

/-- In memory the reduction refuses an empty list of dimensions and unknown dimension names. -/
theorem memory_rejects (view : NDArr α) (labels : List String) :
    reduceMem view labels [] = .error .valueErr ∧
    ∀ dims d, dims ≠ [] → d ∈ dims → d ∉ labels → reduceMem view labels dims = .error .keyErr := by
  refine ⟨by simp [reduceMem], ?_⟩
  intro dims d hne hd hnot
  unfold reduceMem
  have h1 : dims.isEmpty = false := by cases dims <;> simp_all
  have h2 : dims.all (fun d => labels.contains d) = false := by
    rw [List.all_eq_false]
    exact ⟨d, hd, by simpa using hnot⟩
  simp only [h1, Bool.false_eq_true, if_false, h2, Bool.not_false, if_true]

/-- When every dimension of a side is reduced, the rebuilt ancillaries are the one-point placeholder. -/
theorem reduced_anc_all_removed (a : AncK) (remove : List String)
    (h : ∀ d, d < a.labels.length → a.labels.getD d "" ∈ remove) :
    writeReducedAnc a remove = { labels := ["Single_Step"], units := ["a. u."], inds := [[0]], vals := [[0]] } := by
  unfold writeReducedAnc
  have : (List.range a.labels.length).all (fun d => remove.contains (a.labels.getD d "")) = true := by
    rw [List.all_eq_true]; intro d hd; simpa using h d (List.mem_range.mp hd)
  simp only [this, if_true]

/-- Otherwise the rebuilt ancillaries carry exactly the labels and units of the dimensions that were not
    reduced, in their original order, one index row and one value row per remaining dimension, restricted
    to the points at which every reduced dimension sits at its minimum (so the original unit values of the
    remaining dimensions are kept). -/
theorem reduced_anc_keeps_labels (a : AncK) (remove : List String) (d0 : Nat) (hd0 : d0 < a.labels.length)
    (hkeep : a.labels.getD d0 "" ∉ remove) :
    let r := writeReducedAnc a remove
    let kept := (List.range a.labels.length).filter (fun d => !remove.contains (a.labels.getD d ""))
    r.labels = kept.map (fun d => a.labels.getD d "") ∧ r.units = kept.map (fun d => a.units.getD d "") ∧
    r.inds.length = kept.length ∧ r.vals.length = kept.length := by
  intro r kept
  have : (List.range a.labels.length).all (fun d => remove.contains (a.labels.getD d "")) = false := by
    rw [List.all_eq_false]
    exact ⟨d0, List.mem_range.mpr hd0, by simpa using hkeep⟩
  simp only [r, writeReducedAnc, this, Bool.false_eq_true, if_false]
  exact ⟨rfl, rfl, by simp [kept], by simp [kept]⟩

end Usid.C12
