import Usid.Model.Reduce
import Usid.Proofs.Cartesian
import Usid.Proofs.Translate
/-! C12 — reducing named dimensions equals the axis reduction, in memory and on file.
    Structural theorems and the cell-level theorem `cell_exact`. -/
namespace Usid.C12
open Usid Usid.Reduce Usid.Slice

theorem cartesian_length : ∀ (ls : List (List Nat)), (cartesian ls).length = (ls.map List.length).prod
  | [] => rfl
  | l :: ls => by
    simp only [cartesian, List.map_cons, List.prod_cons]
    rw [← cartesian_length ls]
    induction l with
    | nil => simp
    | cons x xs ih =>
      simp only [List.flatMap_cons, List.length_append, List.length_map, List.length_cons]
      rw [ih]; rw [Nat.add_mul, Nat.one_mul, Nat.add_comm]

theorem cartesian_elem_length : ∀ (ls : List (List Nat)) (idx : List Nat), idx ∈ cartesian ls → idx.length = ls.length
  | [], idx, h => by simp [cartesian] at h; simp [h]
  | l :: ls, idx, h => by
    simp only [cartesian, List.mem_flatMap, List.mem_map] at h
    obtain ⟨i, _, rest, hrest, rfl⟩ := h
    simp [cartesian_elem_length ls rest hrest]

variable {α : Type} [Inhabited α]

/-- The reduced array has one axis per remaining dimension with that dimension's size, one cell per
    combination of the remaining coordinates, and every cell collects exactly ∏(reduced sizes) source
    elements — for any N-D view and any set of axes. -/
theorem group_sizes (view : NDArr α) (axes : List Nat) :
    let g := reduceGroups view axes
    let rank := view.shape.length
    let keep := (List.range rank).filter (fun a => !axes.contains a)
    let red := (List.range rank).filter (fun a => axes.contains a)
    g.shape = keep.map (fun a => view.shape.getD a 0) ∧
    g.flat.length = (keep.map (fun a => view.shape.getD a 0)).prod ∧
    ∀ cell ∈ g.flat, cell.length = (red.map (fun a => view.shape.getD a 0)).prod := by
  intro g rank keep red
  refine ⟨rfl, ?_, ?_⟩
  · show (List.map _ (cartesian _)).length = _
    rw [List.length_map, cartesian_length]
    simp [List.map_map, Function.comp_def, keep, rank]
  · intro cell hc
    simp only [g, reduceGroups, List.mem_map] at hc
    obtain ⟨ki, _, rfl⟩ := hc
    rw [List.length_map, cartesian_length]
    simp [List.map_map, Function.comp_def, red, rank]

/-- In memory the reduction refuses an empty list of dimensions and unknown dimension names. -/
theorem memory_rejects (view : NDArr α) (labels : List String) :
    reduceMem view labels [] = .error .valueErr ∧
    ∀ dims d, dims ≠ [] → d ∈ dims → d ∉ labels → reduceMem view labels dims = .error .keyErr := by
  refine ⟨by simp [reduceMem], ?_⟩
  intro dims d hne hd hnot
  unfold reduceMem
  have h1 : dims.isEmpty = false := by cases dims <;> simp_all
  have h2 : dims.all (fun d => labels.contains d) = false := by
    rw [List.all_eq_false]
    exact ⟨d, hd, by simpa using hnot⟩
  simp only [h1, Bool.false_eq_true, if_false, h2, Bool.not_false, if_true]

/-- When every dimension of a side is reduced, the rebuilt ancillaries are the one-point placeholder. -/
theorem reduced_anc_all_removed (a : AncK) (remove : List String)
    (h : ∀ d, d < a.labels.length → a.labels.getD d "" ∈ remove) :
    writeReducedAnc a remove = { labels := ["Single_Step"], units := ["a. u."], inds := [[0]], vals := [[0]] } := by
  unfold writeReducedAnc
  have : (List.range a.labels.length).all (fun d => remove.contains (a.labels.getD d "")) = true := by
    rw [List.all_eq_true]; intro d hd; simpa using h d (List.mem_range.mp hd)
  simp only [this, if_true]

/-- Otherwise the rebuilt ancillaries carry exactly the labels and units of the dimensions that were not
    reduced, in their original order, one index row and one value row per remaining dimension, restricted
    to the points at which every reduced dimension sits at its minimum (so the original unit values of the
    remaining dimensions are kept). -/
theorem reduced_anc_keeps_labels (a : AncK) (remove : List String) (d0 : Nat) (hd0 : d0 < a.labels.length)
    (hkeep : a.labels.getD d0 "" ∉ remove) :
    let r := writeReducedAnc a remove
    let kept := (List.range a.labels.length).filter (fun d => !remove.contains (a.labels.getD d ""))
    r.labels = kept.map (fun d => a.labels.getD d "") ∧ r.units = kept.map (fun d => a.units.getD d "") ∧
    r.inds.length = kept.length ∧ r.vals.length = kept.length := by
  intro r kept
  have : (List.range a.labels.length).all (fun d => remove.contains (a.labels.getD d "")) = false := by
    rw [List.all_eq_false]
    exact ⟨d0, List.mem_range.mpr hd0, by simpa using hkeep⟩
  simp only [r, writeReducedAnc, this, Bool.false_eq_true, if_false]
  exact ⟨rfl, rfl, by simp [kept], by simp [kept]⟩

/-! ### every cell holds exactly the source elements sharing its remaining coordinates -/

theorem pickIdx_ranges : ∀ (sizes js : List Nat), InBounds sizes js →
    pickIdx (sizes.map List.range) js = js
  | [], [], _ => rfl
  | s :: ss, j :: js, h => by
    simp only [List.map_cons, pickIdx]
    rw [pickIdx_ranges ss js h.2]
    simp [List.getD_eq_getElem?_getD, List.getElem?_range h.1]
  | [], _ :: _, h => by simp [InBounds] at h
  | _ :: _, [], h => by simp [InBounds] at h

theorem allMem_ranges : ∀ (sizes js : List Nat), InBounds sizes js → AllMem js (sizes.map List.range)
  | [], [], _ => trivial
  | s :: ss, j :: js, h => ⟨List.mem_range.mpr h.1, allMem_ranges ss js h.2⟩
  | [], _ :: _, h => by simp [InBounds] at h
  | _ :: _, [], h => by simp [InBounds] at h

theorem inBounds_of_allMem_ranges : ∀ (sizes js : List Nat), AllMem js (sizes.map List.range) → InBounds sizes js
  | [], [], _ => trivial
  | s :: ss, j :: js, h => ⟨List.mem_range.mp h.1, inBounds_of_allMem_ranges ss js h.2⟩
  | [], _ :: _, h => by simp [AllMem] at h
  | _ :: _, [], h => by simp [AllMem] at h

/-- the kept and the reduced axes of a view, in axis order -/
def keepAxes (rank : Nat) (axes : List Nat) : List Nat := (List.range rank).filter (fun a => !axes.contains a)
def redAxes (rank : Nat) (axes : List Nat) : List Nat := (List.range rank).filter (fun a => axes.contains a)

/-- the full index assembled from an index of the kept axes and an index of the reduced axes -/
def fullIdx (rank : Nat) (axes ki ri : List Nat) : List Nat :=
  (List.range rank).map (fun a =>
    if axes.contains a then ri.getD ((redAxes rank axes).idxOf a) 0 else ki.getD ((keepAxes rank axes).idxOf a) 0)

/-- splitting an index into its kept and reduced parts and assembling it again gives the index back -/
theorem fullIdx_split (rank : Nat) (axes idx : List Nat) (hl : idx.length = rank) :
    fullIdx rank axes ((keepAxes rank axes).map (fun a => idx.getD a 0)) ((redAxes rank axes).map (fun a => idx.getD a 0)) = idx := by
  apply List.ext_getElem
  · simp [fullIdx, hl]
  · intro a h1 h2
    have ha : a < rank := by rw [← hl]; exact h2
    simp only [fullIdx, List.getElem_map, List.getElem_range]
    by_cases hc : axes.contains a = true
    · have hm : a ∈ redAxes rank axes := List.mem_filter.mpr ⟨List.mem_range.mpr ha, hc⟩
      have hlt := List.idxOf_lt_length_of_mem hm
      simp only [hc, if_true]
      rw [List.getD_eq_getElem?_getD, List.getElem?_map, List.getElem?_eq_getElem hlt]
      simp [List.getElem_idxOf hlt, List.getD_eq_getElem?_getD, List.getElem?_eq_getElem h2]
    · have hm : a ∈ keepAxes rank axes := List.mem_filter.mpr ⟨List.mem_range.mpr ha, by simpa using hc⟩
      have hlt := List.idxOf_lt_length_of_mem hm
      simp only [hc, Bool.false_eq_true, if_false]
      rw [List.getD_eq_getElem?_getD, List.getElem?_map, List.getElem?_eq_getElem hlt]
      simp [List.getElem_idxOf hlt, List.getD_eq_getElem?_getD, List.getElem?_eq_getElem h2]

/-- ... and the kept part of an assembled index is the index of the kept axes it was assembled from -/
theorem fullIdx_keep (rank : Nat) (axes ki ri : List Nat) (hk : ki.length = (keepAxes rank axes).length) :
    (keepAxes rank axes).map (fun a => (fullIdx rank axes ki ri).getD a 0) = ki := by
  have hnd : (keepAxes rank axes).Nodup := (List.filter_sublist).nodup List.nodup_range
  apply List.ext_getElem
  · simp [hk]
  · intro p h1 h2
    have hp : p < (keepAxes rank axes).length := by simpa using h1
    have hmem := List.getElem_mem hp
    have ha : (keepAxes rank axes)[p] < rank ∧ axes.contains (keepAxes rank axes)[p] = false := by
      have := List.mem_filter.mp hmem
      exact ⟨List.mem_range.mp this.1, by simpa using this.2⟩
    simp only [List.getElem_map, fullIdx]
    rw [List.getD_eq_getElem?_getD, List.getElem?_map, List.getElem?_range ha.1]
    simp only [Option.map_some, Option.getD_some, ha.2, Bool.false_eq_true, if_false, hnd.idxOf_getElem p hp]
    simp [List.getD_eq_getElem?_getD, List.getElem?_eq_getElem h2]

/-- **Cells are exact.**  For every N-D view, every set of axes and every in-bounds index `idx` of the view:
    the cell of the reduced array at the kept coordinates of `idx` is the list of view elements at
    (kept coordinates of idx, r) for r running over ALL indices of the reduced axes; `view[idx]` itself is
    in that cell; and every member of the cell is a view element whose kept coordinates are those of `idx`. -/
theorem cell_exact (view : NDArr α) (axes idx : List Nat) (hb : InBounds view.shape idx) :
    let rank := view.shape.length
    let keep := keepAxes rank axes
    let red := redAxes rank axes
    let ki := keep.map (fun a => idx.getD a 0)
    let redIdx := cartesian (red.map (fun a => List.range (view.shape.getD a 0)))
    (reduceGroups view axes).flat[ravelC (reduceGroups view axes).shape ki]? =
        some (redIdx.map (fun ri => view.get (fullIdx rank axes ki ri))) ∧
    view.get idx ∈ redIdx.map (fun ri => view.get (fullIdx rank axes ki ri)) ∧
    ∀ ri ∈ redIdx, (keep.map (fun a => (fullIdx rank axes ki ri).getD a 0) = ki) := by
  intro rank keep red ki redIdx
  have hlen : idx.length = rank := (Usid.Translate.inBounds_length _ _ hb).symm
  have hbk : InBounds (keep.map (fun a => view.shape.getD a 0)) ki := by
    have := Usid.Translate.inBounds_map view.shape idx hb keep (fun i hi => by
      have := List.mem_filter.mp hi; exact List.mem_range.mp this.1)
    -- getD default 1 vs 0: the axes are in range, so both read the same entry
    have e : keep.map (fun a => view.shape.getD a 1) = keep.map (fun a => view.shape.getD a 0) := by
      apply List.map_congr_left; intro a ha
      have : a < view.shape.length := List.mem_range.mp (List.mem_filter.mp ha).1
      simp [List.getD_eq_getElem?_getD, List.getElem?_eq_getElem this]
    rw [e] at this; exact this
  refine ⟨?_, ?_, ?_⟩
  · show (List.map _ (cartesian (keep.map (fun a => List.range (view.shape.getD a 0)))))[ravelC (keep.map (fun a => view.shape.getD a 0)) ki]? = _
    have e1 : (keep.map (fun a => List.range (view.shape.getD a 0))).map List.length = keep.map (fun a => view.shape.getD a 0) := by
      simp [List.map_map, Function.comp_def]
    have e2 : keep.map (fun a => List.range (view.shape.getD a 0)) = (keep.map (fun a => view.shape.getD a 0)).map List.range := by
      simp [List.map_map, Function.comp_def]
    have := cartesian_get (keep.map (fun a => List.range (view.shape.getD a 0))) ki (by rw [e1]; exact hbk)
    rw [e1] at this
    rw [List.getElem?_map, this, e2, pickIdx_ranges _ ki hbk]
    rfl
  · rw [List.mem_map]
    refine ⟨red.map (fun a => idx.getD a 0), ?_, ?_⟩
    · rw [mem_cartesian]
      have hbr : InBounds (red.map (fun a => view.shape.getD a 0)) (red.map (fun a => idx.getD a 0)) := by
        have := Usid.Translate.inBounds_map view.shape idx hb red (fun i hi => by
          have := List.mem_filter.mp hi; exact List.mem_range.mp this.1)
        have e : red.map (fun a => view.shape.getD a 1) = red.map (fun a => view.shape.getD a 0) := by
          apply List.map_congr_left; intro a ha
          have : a < view.shape.length := List.mem_range.mp (List.mem_filter.mp ha).1
          simp [List.getD_eq_getElem?_getD, List.getElem?_eq_getElem this]
        rw [e] at this; exact this
      have e2 : red.map (fun a => List.range (view.shape.getD a 0)) = (red.map (fun a => view.shape.getD a 0)).map List.range := by
        simp [List.map_map, Function.comp_def]
      rw [e2]; exact allMem_ranges _ _ hbr
    · rw [fullIdx_split rank axes idx hlen]
  · intro ri _
    exact fullIdx_keep rank axes ki ri (by simp [ki, keep])

end Usid.C12
