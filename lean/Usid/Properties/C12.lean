import Usid.Model.Reduce
import Usid.Proofs.ReduceFile
import Usid.Properties.C10
import Usid.Proofs.Cartesian
import Usid.Proofs.Translate
/-! C12 — reducing named dimensions equals the axis reduction, in memory and on file.
    Structural theorems and the cell-level theorem `cell_exact`. -/
namespace Usid.C12
open Usid Usid.Reduce Usid.Slice

theorem cartesian_length : ∀ (ls : List (List Nat)), (cartesian ls).length = (ls.map List.length).prod
  | [] => rfl
  | l :: ls => by
    simp only [cartesian, List.map_cons, List.prod_cons]
    rw [← cartesian_length ls]
    induction l with
    | nil => simp
    | cons x xs ih =>
      simp only [List.flatMap_cons, List.length_append, List.length_map, List.length_cons]
      rw [ih]; rw [Nat.add_mul, Nat.one_mul, Nat.add_comm]

theorem cartesian_elem_length : ∀ (ls : List (List Nat)) (idx : List Nat), idx ∈ cartesian ls → idx.length = ls.length
  | [], idx, h => by simp [cartesian] at h; simp [h]
  | l :: ls, idx, h => by
    simp only [cartesian, List.mem_flatMap, List.mem_map] at h
    obtain ⟨i, _, rest, hrest, rfl⟩ := h
    simp [cartesian_elem_length ls rest hrest]

variable {α : Type} [Inhabited α]

/-- The reduced array has one axis per remaining dimension with that dimension's size, one cell per
    combination of the remaining coordinates, and every cell collects exactly ∏(reduced sizes) source
    elements — for any N-D view and any set of axes. -/
theorem group_sizes (view : NDArr α) (axes : List Nat) :
    let g := reduceGroups view axes
    let rank := view.shape.length
    let keep := (List.range rank).filter (fun a => !axes.contains a)
    let red := (List.range rank).filter (fun a => axes.contains a)
    g.shape = keep.map (fun a => view.shape.getD a 0) ∧
    g.flat.length = (keep.map (fun a => view.shape.getD a 0)).prod ∧
    ∀ cell ∈ g.flat, cell.length = (red.map (fun a => view.shape.getD a 0)).prod := by
  intro g rank keep red
  refine ⟨rfl, ?_, ?_⟩
  · show (List.map _ (cartesian _)).length = _
    rw [List.length_map, cartesian_length]
    simp [List.map_map, Function.comp_def, keep, rank]
  · intro cell hc
    simp only [g, reduceGroups, List.mem_map] at hc
    obtain ⟨ki, _, rfl⟩ := hc
    rw [List.length_map, cartesian_length]
    simp [List.map_map, Function.comp_def, red, rank]

/-- In memory the reduction refuses an empty list of dimensions and unknown dimension names. -/
theorem memory_rejects (view : NDArr α) (labels : List String) :
    reduceMem view labels [] = .error .valueErr ∧
    ∀ dims d, dims ≠ [] → d ∈ dims → d ∉ labels → reduceMem view labels dims = .error .keyErr := by
  refine ⟨by simp [reduceMem], ?_⟩
  intro dims d hne hd hnot
  unfold reduceMem
  have h1 : dims.isEmpty = false := by cases dims <;> simp_all
  have h2 : dims.all (fun d => labels.contains d) = false := by
    rw [List.all_eq_false]
    exact ⟨d, hd, by simpa using hnot⟩
  simp only [h1, Bool.false_eq_true, if_false, h2, Bool.not_false, if_true]

/-- When every dimension of a side is reduced, the rebuilt ancillaries are the one-point placeholder. -/
theorem reduced_anc_all_removed (a : AncK) (remove : List String)
    (h : ∀ d, d < a.labels.length → a.labels.getD d "" ∈ remove) :
    writeReducedAnc a remove = { labels := ["Single_Step"], units := ["a. u."], inds := [[0]], vals := [[0]] } := by
  unfold writeReducedAnc
  have : (List.range a.labels.length).all (fun d => remove.contains (a.labels.getD d "")) = true := by
    rw [List.all_eq_true]; intro d hd; simpa using h d (List.mem_range.mp hd)
  simp only [this, if_true]

/-- Otherwise the rebuilt ancillaries carry exactly the labels and units of the dimensions that were not
    reduced, in their original order, one index row and one value row per remaining dimension, restricted
    to the points at which every reduced dimension sits at its minimum (so the original unit values of the
    remaining dimensions are kept). -/
theorem reduced_anc_keeps_labels (a : AncK) (remove : List String) (d0 : Nat) (hd0 : d0 < a.labels.length)
    (hkeep : a.labels.getD d0 "" ∉ remove) :
    let r := writeReducedAnc a remove
    let kept := (List.range a.labels.length).filter (fun d => !remove.contains (a.labels.getD d ""))
    r.labels = kept.map (fun d => a.labels.getD d "") ∧ r.units = kept.map (fun d => a.units.getD d "") ∧
    r.inds.length = kept.length ∧ r.vals.length = kept.length := by
  intro r kept
  have : (List.range a.labels.length).all (fun d => remove.contains (a.labels.getD d "")) = false := by
    rw [List.all_eq_false]
    exact ⟨d0, List.mem_range.mpr hd0, by simpa using hkeep⟩
  simp only [r, writeReducedAnc, this, Bool.false_eq_true, if_false]
  exact ⟨rfl, rfl, by simp [kept], by simp [kept]⟩

/-! ### every cell holds exactly the source elements sharing its remaining coordinates -/

theorem pickIdx_ranges : ∀ (sizes js : List Nat), InBounds sizes js →
    pickIdx (sizes.map List.range) js = js
  | [], [], _ => rfl
  | s :: ss, j :: js, h => by
    simp only [List.map_cons, pickIdx]
    rw [pickIdx_ranges ss js h.2]
    simp [List.getD_eq_getElem?_getD, List.getElem?_range h.1]
  | [], _ :: _, h => by simp [InBounds] at h
  | _ :: _, [], h => by simp [InBounds] at h

theorem allMem_ranges : ∀ (sizes js : List Nat), InBounds sizes js → AllMem js (sizes.map List.range)
  | [], [], _ => trivial
  | s :: ss, j :: js, h => ⟨List.mem_range.mpr h.1, allMem_ranges ss js h.2⟩
  | [], _ :: _, h => by simp [InBounds] at h
  | _ :: _, [], h => by simp [InBounds] at h

theorem inBounds_of_allMem_ranges : ∀ (sizes js : List Nat), AllMem js (sizes.map List.range) → InBounds sizes js
  | [], [], _ => trivial
  | s :: ss, j :: js, h => ⟨List.mem_range.mp h.1, inBounds_of_allMem_ranges ss js h.2⟩
  | [], _ :: _, h => by simp [AllMem] at h
  | _ :: _, [], h => by simp [AllMem] at h

/-- the kept and the reduced axes of a view, in axis order -/
def keepAxes (rank : Nat) (axes : List Nat) : List Nat := (List.range rank).filter (fun a => !axes.contains a)
def redAxes (rank : Nat) (axes : List Nat) : List Nat := (List.range rank).filter (fun a => axes.contains a)

/-- the full index assembled from an index of the kept axes and an index of the reduced axes -/
def fullIdx (rank : Nat) (axes ki ri : List Nat) : List Nat :=
  (List.range rank).map (fun a =>
    if axes.contains a then ri.getD ((redAxes rank axes).idxOf a) 0 else ki.getD ((keepAxes rank axes).idxOf a) 0)

/-- splitting an index into its kept and reduced parts and assembling it again gives the index back -/
theorem fullIdx_split (rank : Nat) (axes idx : List Nat) (hl : idx.length = rank) :
    fullIdx rank axes ((keepAxes rank axes).map (fun a => idx.getD a 0)) ((redAxes rank axes).map (fun a => idx.getD a 0)) = idx := by
  apply List.ext_getElem
  · simp [fullIdx, hl]
  · intro a h1 h2
    have ha : a < rank := by rw [← hl]; exact h2
    simp only [fullIdx, List.getElem_map, List.getElem_range]
    by_cases hc : axes.contains a = true
    · have hm : a ∈ redAxes rank axes := List.mem_filter.mpr ⟨List.mem_range.mpr ha, hc⟩
      have hlt := List.idxOf_lt_length_of_mem hm
      simp only [hc, if_true]
      rw [List.getD_eq_getElem?_getD, List.getElem?_map, List.getElem?_eq_getElem hlt]
      simp [List.getElem_idxOf hlt, List.getD_eq_getElem?_getD, List.getElem?_eq_getElem h2]
    · have hm : a ∈ keepAxes rank axes := List.mem_filter.mpr ⟨List.mem_range.mpr ha, by simpa using hc⟩
      have hlt := List.idxOf_lt_length_of_mem hm
      simp only [hc, Bool.false_eq_true, if_false]
      rw [List.getD_eq_getElem?_getD, List.getElem?_map, List.getElem?_eq_getElem hlt]
      simp [List.getElem_idxOf hlt, List.getD_eq_getElem?_getD, List.getElem?_eq_getElem h2]

/-- ... and the kept part of an assembled index is the index of the kept axes it was assembled from -/
theorem fullIdx_keep (rank : Nat) (axes ki ri : List Nat) (hk : ki.length = (keepAxes rank axes).length) :
    (keepAxes rank axes).map (fun a => (fullIdx rank axes ki ri).getD a 0) = ki := by
  have hnd : (keepAxes rank axes).Nodup := (List.filter_sublist).nodup List.nodup_range
  apply List.ext_getElem
  · simp [hk]
  · intro p h1 h2
    have hp : p < (keepAxes rank axes).length := by simpa using h1
    have hmem := List.getElem_mem hp
    have ha : (keepAxes rank axes)[p] < rank ∧ axes.contains (keepAxes rank axes)[p] = false := by
      have := List.mem_filter.mp hmem
      exact ⟨List.mem_range.mp this.1, by simpa using this.2⟩
    simp only [List.getElem_map, fullIdx]
    rw [List.getD_eq_getElem?_getD, List.getElem?_map, List.getElem?_range ha.1]
    simp only [Option.map_some, Option.getD_some, ha.2, Bool.false_eq_true, if_false, hnd.idxOf_getElem p hp]
    simp [List.getD_eq_getElem?_getD, List.getElem?_eq_getElem h2]

/-- **Cells are exact.**  For every N-D view, every set of axes and every in-bounds index `idx` of the view:
    the cell of the reduced array at the kept coordinates of `idx` is the list of view elements at
    (kept coordinates of idx, r) for r running over ALL indices of the reduced axes; `view[idx]` itself is
    in that cell; and every member of the cell is a view element whose kept coordinates are those of `idx`. -/
theorem cell_exact (view : NDArr α) (axes idx : List Nat) (hb : InBounds view.shape idx) :
    let rank := view.shape.length
    let keep := keepAxes rank axes
    let red := redAxes rank axes
    let ki := keep.map (fun a => idx.getD a 0)
    let redIdx := cartesian (red.map (fun a => List.range (view.shape.getD a 0)))
    (reduceGroups view axes).flat[ravelC (reduceGroups view axes).shape ki]? =
        some (redIdx.map (fun ri => view.get (fullIdx rank axes ki ri))) ∧
    view.get idx ∈ redIdx.map (fun ri => view.get (fullIdx rank axes ki ri)) ∧
    ∀ ri ∈ redIdx, (keep.map (fun a => (fullIdx rank axes ki ri).getD a 0) = ki) := by
  intro rank keep red ki redIdx
  have hlen : idx.length = rank := (Usid.Translate.inBounds_length _ _ hb).symm
  have hbk : InBounds (keep.map (fun a => view.shape.getD a 0)) ki := by
    have := Usid.Translate.inBounds_map view.shape idx hb keep (fun i hi => by
      have := List.mem_filter.mp hi; exact List.mem_range.mp this.1)
    -- getD default 1 vs 0: the axes are in range, so both read the same entry
    have e : keep.map (fun a => view.shape.getD a 1) = keep.map (fun a => view.shape.getD a 0) := by
      apply List.map_congr_left; intro a ha
      have : a < view.shape.length := List.mem_range.mp (List.mem_filter.mp ha).1
      simp [List.getD_eq_getElem?_getD, List.getElem?_eq_getElem this]
    rw [e] at this; exact this
  refine ⟨?_, ?_, ?_⟩
  · show (List.map _ (cartesian (keep.map (fun a => List.range (view.shape.getD a 0)))))[ravelC (keep.map (fun a => view.shape.getD a 0)) ki]? = _
    have e1 : (keep.map (fun a => List.range (view.shape.getD a 0))).map List.length = keep.map (fun a => view.shape.getD a 0) := by
      simp [List.map_map, Function.comp_def]
    have e2 : keep.map (fun a => List.range (view.shape.getD a 0)) = (keep.map (fun a => view.shape.getD a 0)).map List.range := by
      simp [List.map_map, Function.comp_def]
    have := cartesian_get (keep.map (fun a => List.range (view.shape.getD a 0))) ki (by rw [e1]; exact hbk)
    rw [e1] at this
    rw [List.getElem?_map, this, e2, pickIdx_ranges _ ki hbk]
    rfl
  · rw [List.mem_map]
    refine ⟨red.map (fun a => idx.getD a 0), ?_, ?_⟩
    · rw [mem_cartesian]
      have hbr : InBounds (red.map (fun a => view.shape.getD a 0)) (red.map (fun a => idx.getD a 0)) := by
        have := Usid.Translate.inBounds_map view.shape idx hb red (fun i hi => by
          have := List.mem_filter.mp hi; exact List.mem_range.mp this.1)
        have e : red.map (fun a => view.shape.getD a 1) = red.map (fun a => view.shape.getD a 0) := by
          apply List.map_congr_left; intro a ha
          have : a < view.shape.length := List.mem_range.mp (List.mem_filter.mp ha).1
          simp [List.getD_eq_getElem?_getD, List.getElem?_eq_getElem this]
        rw [e] at this; exact this
      have e2 : red.map (fun a => List.range (view.shape.getD a 0)) = (red.map (fun a => view.shape.getD a 0)).map List.range := by
        simp [List.map_map, Function.comp_def]
      rw [e2]; exact allMem_ranges _ _ hbr
    · rw [fullIdx_split rank axes idx hlen]
  · intro ri _
    exact fullIdx_keep rank axes ki ri (by simp [ki, keep])

/-- the cell at ANY in-bounds index of the kept axes -/
theorem cell_at (view : NDArr α) (axes ki : List Nat)
    (hbk : InBounds ((keepAxes view.shape.length axes).map (fun a => view.shape.getD a 0)) ki) :
    (reduceGroups view axes).get ki =
      (cartesian ((redAxes view.shape.length axes).map (fun a => List.range (view.shape.getD a 0)))).map
        (fun ri => view.get (fullIdx view.shape.length axes ki ri)) := by
  let keep := keepAxes view.shape.length axes
  have h1 : (reduceGroups view axes).flat[ravelC (reduceGroups view axes).shape ki]? =
      some ((cartesian ((redAxes view.shape.length axes).map (fun a => List.range (view.shape.getD a 0)))).map
        (fun ri => view.get (fullIdx view.shape.length axes ki ri))) := by
    show (List.map _ (cartesian (keep.map (fun a => List.range (view.shape.getD a 0)))))[ravelC (keep.map (fun a => view.shape.getD a 0)) ki]? = _
    have e1 : (keep.map (fun a => List.range (view.shape.getD a 0))).map List.length = keep.map (fun a => view.shape.getD a 0) := by
      simp [List.map_map, Function.comp_def]
    have e2 : keep.map (fun a => List.range (view.shape.getD a 0)) = (keep.map (fun a => view.shape.getD a 0)).map List.range := by
      simp [List.map_map, Function.comp_def]
    have := cartesian_get (keep.map (fun a => List.range (view.shape.getD a 0))) ki (by rw [e1]; exact hbk)
    rw [e1] at this
    rw [List.getElem?_map, this, e2, pickIdx_ranges _ ki hbk]
    rfl
  unfold NDArr.get
  rw [List.getD_eq_getElem?_getD, h1]
  rfl

/-- the indices of the reduced axes that a cell runs over are exactly the in-bounds ones -/
theorem mem_redIdx (shape : List Nat) (red ri : List Nat) :
    ri ∈ cartesian (red.map (fun a => List.range (shape.getD a 0))) ↔ InBounds (red.map (fun a => shape.getD a 0)) ri := by
  have e2 : red.map (fun a => List.range (shape.getD a 0)) = (red.map (fun a => shape.getD a 0)).map List.range := by
    simp [List.map_map, Function.comp_def]
  rw [mem_cartesian, e2]
  exact ⟨inBounds_of_allMem_ranges _ _, allMem_ranges _ _⟩

/-- an index assembled from in-bounds kept and reduced parts is in bounds of the view -/
theorem fullIdx_inBounds (shape axes ki ri : List Nat)
    (hk : InBounds ((keepAxes shape.length axes).map (fun a => shape.getD a 0)) ki)
    (hr : InBounds ((redAxes shape.length axes).map (fun a => shape.getD a 0)) ri) :
    InBounds shape (fullIdx shape.length axes ki ri) := by
  have hkl := Usid.Translate.inBounds_length _ _ hk
  have hrl := Usid.Translate.inBounds_length _ _ hr
  apply Usid.Reshape.inBounds_of_forall
  · simp [fullIdx]
  · intro a h1 h2
    simp only [fullIdx, List.getElem_map, List.getElem_range]
    by_cases hc : axes.contains a = true
    · have hm : a ∈ redAxes shape.length axes := List.mem_filter.mpr ⟨List.mem_range.mpr h1, hc⟩
      have hlt := List.idxOf_lt_length_of_mem hm
      simp only [hc, if_true]
      have := Usid.Translate.inBounds_getD _ _ ((redAxes shape.length axes).idxOf a) hr (by simpa using hlt)
      rw [List.getD_eq_getElem?_getD (l := (redAxes shape.length axes).map _), List.getElem?_map,
        List.getElem?_eq_getElem hlt] at this
      simp only [Option.map_some, Option.getD_some, List.getElem_idxOf hlt] at this
      have e : shape.getD a 0 = shape[a] := by
        rw [List.getD_eq_getElem?_getD, List.getElem?_eq_getElem h1]; rfl
      rw [e] at this
      simpa [List.getD_eq_getElem?_getD] using this
    · have hm : a ∈ keepAxes shape.length axes := List.mem_filter.mpr ⟨List.mem_range.mpr h1, by simpa using hc⟩
      have hlt := List.idxOf_lt_length_of_mem hm
      simp only [hc, Bool.false_eq_true, if_false]
      have := Usid.Translate.inBounds_getD _ _ ((keepAxes shape.length axes).idxOf a) hk (by simpa using hlt)
      rw [List.getD_eq_getElem?_getD (l := (keepAxes shape.length axes).map _), List.getElem?_map,
        List.getElem?_eq_getElem hlt] at this
      simp only [Option.map_some, Option.getD_some, List.getElem_idxOf hlt] at this
      have e : shape.getD a 0 = shape[a] := by
        rw [List.getD_eq_getElem?_getD, List.getElem?_eq_getElem h1]; rfl
      rw [e] at this
      simpa [List.getD_eq_getElem?_getD] using this

/-! ### the dataset written by `reduce(to_hdf5=True)` -/
open Usid.Grid Usid.C09 Usid.ReduceAnc Usid.Relabel Usid.Reshape Usid.Dims in
/-- **On file.**  For every pair of regular-grid sides (any sizes, any storage permutation), distinct labels,
    EVERY N-D array `view` of the file-order shape, and every non-empty list of dimension names that leaves at
    least one dimension on each side (the remaining sides having at most as many dimensions as points - the
    guard of the known finding D5a):  `reduce(dims, to_hdf5=True)` succeeds; each side of the new dataset
    carries the labels and units of its remaining dimensions, the regular grid over those dimensions (same
    relative rate order) and that grid's values with the ORIGINAL reference values (for an untouched side
    these are the source's own matrices); the data is N' x M' and its element (r, c) is the cell of the
    reduced array at (position indices of row r ++ spectroscopic indices of column c) read from the NEW
    ancillaries - which by `cell_exact` is the list of exactly the source elements sharing those remaining
    coordinates. -/
theorem file_form (view : NDArr α) (pS pR sS sR : List Nat) (plabs slabs punits sunits : List String)
    (pV sV : List (List Int)) (dims : List String)
    (hP : ValidGrid pS pR) (hS : ValidGrid sS sR)
    (hlp : plabs.length = pS.length) (hls : slabs.length = sS.length)
    (hup : punits.length = pS.length) (hus : sunits.length = sS.length)
    (hnd : (plabs ++ slabs).Nodup) (hshape : view.shape = pS ++ sS)
    (hne : dims ≠ []) (hdims : ∀ d ∈ dims, d ∈ plabs ++ slabs)
    (p0 : Nat) (hp0 : p0 ∈ keptOf plabs dims) (s0 : Nat) (hs0 : s0 ∈ keptOf slabs dims)
    (hkP : (keptOf plabs dims).length ≤
      npoints (sizeFn ((keptOf plabs dims).map (sizeFn pS))) (rateOf pR (keptOf plabs dims)))
    (hkS : (keptOf slabs dims).length ≤
      npoints (sizeFn ((keptOf slabs dims).map (sizeFn sS))) (rateOf sR (keptOf slabs dims))) :
    let KP := keptOf plabs dims
    let KS := keptOf slabs dims
    let pS' := KP.map (sizeFn pS)
    let pR' := rateOf pR KP
    let sS' := KS.map (sizeFn sS)
    let sR' := rateOf sR KS
    let axes := dims.map (fun d => (plabs ++ slabs).findIdx (· == d))
    ∃ res, reduceToFile view (plabs ++ slabs) (sideK pS pR plabs punits pV) (sideK sS sR slabs sunits sV) dims = .ok res ∧
      res.pos = ⟨KP.map (fun d => plabs.getD d ""), KP.map (fun d => punits.getD d ""), gridMatrix pS' pR',
                 valueMatrix pS' pR' (KP.map (fun d => pV.getD d []))⟩ ∧
      res.spec = ⟨KS.map (fun d => slabs.getD d ""), KS.map (fun d => sunits.getD d ""), gridMatrix sS' sR',
                  valueMatrix sS' sR' (KS.map (fun d => sV.getD d []))⟩ ∧
      ValidGrid pS' pR' ∧ ValidGrid sS' sR' ∧
      res.data.shape = [npoints (sizeFn pS') pR', npoints (sizeFn sS') sR'] ∧
      ∀ r c, r < npoints (sizeFn pS') pR' → c < npoints (sizeFn sS') sR' →
        res.data.get [r, c] =
          (reduceGroups view axes).get (coords pS' pR' r (List.range KP.length) ++ coords sS' sR' c (List.range KS.length)) := by
  intro KP KS pS' pR' sS' sR' axes
  obtain ⟨hposSide, hP'⟩ := side_after pS pR plabs punits pV dims hP hlp hup p0 hp0
  obtain ⟨hspecSide, hS'⟩ := side_after sS sR slabs sunits sV dims hS hls hus s0 hs0
  have hlenP' : pS'.length = KP.length := by simp [pS']
  have hlenS' : sS'.length = KS.length := by simp [sS']
  have hKPpos : 1 ≤ KP.length := List.length_pos_iff.mpr (List.ne_nil_of_mem hp0)
  have hKSpos : 1 ≤ KS.length := List.length_pos_iff.mpr (List.ne_nil_of_mem hs0)
  -- the reduced array and its shape
  have hmem : reduceMem view (plabs ++ slabs) dims = .ok (reduceGroups view axes) := by
    unfold reduceMem
    have h1 : dims.isEmpty = false := by
      cases dims with
      | nil => exact absurd rfl hne
      | cons _ _ => rfl
    have h2 : dims.all (fun d => (plabs ++ slabs).contains d) = true := by
      rw [List.all_eq_true]; intro d hd; simpa using hdims d hd
    simp only [h1, h2, Bool.false_eq_true, if_false, Bool.not_true]
    rfl
  have hKPlt : ∀ d ∈ KP, d < pS.length := by
    intro d hd
    have := List.mem_range.mp (List.mem_filter.mp hd).1
    omega
  have hKSlt : ∀ d ∈ KS, d < sS.length := by
    intro d hd
    have := List.mem_range.mp (List.mem_filter.mp hd).1
    omega
  have hgshape : (reduceGroups view axes).shape = pS' ++ sS' := by
    show ((List.range view.shape.length).filter (fun a => !axes.contains a)).map (fun a => view.shape.getD a 0) = _
    rw [hshape, List.length_append, ← hlp, ← hls, Usid.ReduceFile.keep_axes plabs slabs dims hnd hdims, List.map_append, List.map_map]
    congr 1
    · apply List.map_congr_left
      intro d hd
      have hdk := hKPlt d hd
      simp [sizeFn, List.getD_eq_getElem?_getD, List.getElem?_append_left hdk, List.getElem?_eq_getElem hdk]
    · apply List.map_congr_left
      intro d hd
      have hdk := hKSlt d hd
      simp only [Function.comp]
      rw [hlp]
      simp [sizeFn, List.getD_eq_getElem?_getD, List.getElem?_append_right, List.getElem?_eq_getElem hdk]
  -- the position matrix handed to reshape_from_n_dims
  have hNP : 0 < npoints (sizeFn pS') pR' := by
    obtain ⟨_, hpos, _⟩ := valid_facts pS' pR' hP'
    exact prod_pos _ pR' (fun e he => (hpos e he).2)
  have hgm_ne : gridMatrix pS' pR' ≠ [] := by
    unfold gridMatrix
    rw [hlenP']
    intro hh
    have := congrArg List.length hh
    have h0 : KP.length = 0 := by simpa using this
    omega
  have hrowlen : ∀ row ∈ gridMatrix pS' pR', row.length = npoints (sizeFn pS') pR' := by
    intro row hr
    unfold gridMatrix at hr
    obtain ⟨d, _, rfl⟩ := List.mem_map.mp hr
    simp [gridRow]
  have htt := Usid.ReduceFile.transposeM_transposeM (gridMatrix pS' pR') _ hgm_ne hNP hrowlen
  have hrows : (transposeM (gridMatrix pS' pR')).length = npoints (sizeFn pS') pR' := by
    unfold gridMatrix
    obtain ⟨n, hn⟩ : ∃ n, pS'.length = n + 1 := ⟨pS'.length - 1, by omega⟩
    rw [hn, List.range_succ_eq_map]
    simp [transposeM, gridRow]
  have hcols : ncols (transposeM (gridMatrix pS' pR')) = pS'.length := by
    unfold ncols
    obtain ⟨n, hn⟩ : ∃ n, pS'.length = n + 1 := ⟨pS'.length - 1, by omega⟩
    obtain ⟨m, hm⟩ : ∃ m, npoints (sizeFn pS') pR' = m + 1 := ⟨npoints (sizeFn pS') pR' - 1, by omega⟩
    unfold gridMatrix
    rw [hn, List.range_succ_eq_map]
    simp only [transposeM, List.map_cons, gridRow, List.length_map, List.length_range]
    rw [hm, List.range_succ_eq_map]
    simp
  obtain ⟨R, hR, hRshape, _, hRget⟩ := Usid.C10.flatten_reads_coordinates (reduceGroups view axes) pS' pR' sS' sR'
    (transposeM (gridMatrix pS' pR')) hP' hS' (by rw [hlenP']; exact hkP) (by rw [hlenS']; exact hkS)
    (by omega) (by omega) htt hrows hcols hgshape
  have hmS : ncols (gridMatrix sS' sR') = npoints (sizeFn sS') sR' := by
    unfold ncols gridMatrix
    obtain ⟨n, hn⟩ : ∃ n, sS'.length = n + 1 := ⟨sS'.length - 1, by omega⟩
    rw [hn, List.range_succ_eq_map]
    simp [gridRow]
  refine ⟨⟨R, newSide (sideK pS pR plabs punits pV) dims, newSide (sideK sS sR slabs sunits sV) dims,
      !dims.any (fun d => (sideK pS pR plabs punits pV).labels.contains d),
      !dims.any (fun d => (sideK sS sR slabs sunits sV).labels.contains d)⟩, ?_, hposSide, hspecSide, hP', hS', hRshape, ?_⟩
  · unfold reduceToFile
    have hR' : reshapeFromNDimsBoth (reduceGroups view axes)
        (transposeM (gridMatrix ((keptOf plabs dims).map (sizeFn pS)) (rateOf pR (keptOf plabs dims))))
        (gridMatrix ((keptOf slabs dims).map (sizeFn sS)) (rateOf sR (keptOf slabs dims))) = .ok R := hR
    have hrows' : (transposeM (gridMatrix ((keptOf plabs dims).map (sizeFn pS)) (rateOf pR (keptOf plabs dims)))).length =
        npoints (sizeFn pS') pR' := hrows
    have hmS' : ncols (gridMatrix ((keptOf slabs dims).map (sizeFn sS)) (rateOf sR (keptOf slabs dims))) =
        npoints (sizeFn sS') sR' := hmS
    simp only [hmem, hposSide, hspecSide, hR', hRshape, hrows', hmS', List.length_cons, List.length_nil,
      List.getD_cons_zero, List.getD_cons_succ, bne_self_eq_false, Bool.or_self, Bool.false_eq_true, if_false]
  · intro r c hr hc
    rw [hlenP', hlenS'] at hRget
    exact hRget r c hr hc

open Usid.Grid Usid.C09 Usid.ReduceAnc Usid.Relabel Usid.Reshape Usid.Dims in
/-- a side all of whose dimensions are reduced becomes the one-point placeholder -/
theorem side_all_reduced (S R : List Nat) (labels units : List String) (values : List (List Int)) (dims : List String)
    (hl : labels.length = S.length) (hk : 1 ≤ S.length) (hall : keptOf labels dims = []) :
    newSide (sideK S R labels units values) dims =
      { labels := ["Single_Step"], units := ["a. u."], inds := [[0]], vals := [[0]] } := by
  have hmem : ∀ d, d < labels.length → labels.getD d "" ∈ dims := by
    intro d hd
    have : d ∉ keptOf labels dims := by rw [hall]; simp
    unfold keptOf at this
    have h2 : ¬ ((!dims.contains (labels.getD d "")) = true) := fun hh =>
      this (List.mem_filter.mpr ⟨List.mem_range.mpr hd, hh⟩)
    simpa using h2
  have hin : ∀ d, d < labels.length → labels.getD d "" ∈ labels := by
    intro d hd
    rw [List.getD_eq_getElem?_getD, List.getElem?_eq_getElem hd]; exact List.getElem_mem hd
  unfold newSide sideK
  have hany : dims.any (fun d => labels.contains d) = true := by
    rw [List.any_eq_true]
    exact ⟨labels.getD 0 "", hmem 0 (by omega), by simpa using hin 0 (by omega)⟩
  simp only [hany, if_true]
  apply reduced_anc_all_removed
  intro d hd
  exact List.mem_filter.mpr ⟨hmem d hd, by simpa using hin d hd⟩

open Usid.Grid Usid.C09 Usid.ReduceAnc Usid.Relabel Usid.Reshape Usid.Dims in
/-- **On file, every position dimension reduced.**  The position side becomes the one-point placeholder, the
    reduced array has no position axis, and (at least two spectroscopic dimensions remaining) the written
    data is 1 x M' with element (0, c) = the cell at the spectroscopic indices of column c. -/
theorem file_form_pos_reduced (view : NDArr α) (pS pR sS sR : List Nat) (plabs slabs punits sunits : List String)
    (pV sV : List (List Int)) (dims : List String)
    (hS : ValidGrid sS sR)
    (hlp : plabs.length = pS.length) (hls : slabs.length = sS.length) (hus : sunits.length = sS.length)
    (hkp : 1 ≤ pS.length)
    (hnd : (plabs ++ slabs).Nodup) (hshape : view.shape = pS ++ sS)
    (hne : dims ≠ []) (hdims : ∀ d ∈ dims, d ∈ plabs ++ slabs)
    (hallP : keptOf plabs dims = []) (hks2 : 2 ≤ (keptOf slabs dims).length)
    (hkS : (keptOf slabs dims).length ≤
      npoints (sizeFn ((keptOf slabs dims).map (sizeFn sS))) (rateOf sR (keptOf slabs dims))) :
    let KS := keptOf slabs dims
    let sS' := KS.map (sizeFn sS)
    let sR' := rateOf sR KS
    let axes := dims.map (fun d => (plabs ++ slabs).findIdx (· == d))
    ∃ res, reduceToFile view (plabs ++ slabs) (sideK pS pR plabs punits pV) (sideK sS sR slabs sunits sV) dims = .ok res ∧
      res.pos = { labels := ["Single_Step"], units := ["a. u."], inds := [[0]], vals := [[0]] } ∧
      res.spec = ⟨KS.map (fun d => slabs.getD d ""), KS.map (fun d => sunits.getD d ""), gridMatrix sS' sR',
                  valueMatrix sS' sR' (KS.map (fun d => sV.getD d []))⟩ ∧
      ValidGrid sS' sR' ∧
      res.data.shape = [1, npoints (sizeFn sS') sR'] ∧
      ∀ c, c < npoints (sizeFn sS') sR' →
        res.data.get [0, c] = (reduceGroups view axes).get (coords sS' sR' c (List.range KS.length)) := by
  intro KS sS' sR' axes
  obtain ⟨s0, hs0⟩ : ∃ s0, s0 ∈ keptOf slabs dims := by
    cases hk : keptOf slabs dims with
    | nil => rw [hk] at hks2; simp at hks2
    | cons a _ => exact ⟨a, List.mem_cons_self⟩
  have hposSide := side_all_reduced pS pR plabs punits pV dims hlp hkp hallP
  obtain ⟨hspecSide, hS'⟩ := side_after sS sR slabs sunits sV dims hS hls hus s0 hs0
  have hlenS' : sS'.length = KS.length := by simp [sS']
  have hks2' : 2 ≤ KS.length := hks2
  have hmem : reduceMem view (plabs ++ slabs) dims = .ok (reduceGroups view axes) := by
    unfold reduceMem
    have h1 : dims.isEmpty = false := by
      cases dims with
      | nil => exact absurd rfl hne
      | cons _ _ => rfl
    have h2 : dims.all (fun d => (plabs ++ slabs).contains d) = true := by
      rw [List.all_eq_true]; intro d hd; simpa using hdims d hd
    simp only [h1, h2, Bool.false_eq_true, if_false, Bool.not_true]
    rfl
  have hKSlt : ∀ d ∈ KS, d < sS.length := by
    intro d hd
    have := List.mem_range.mp (List.mem_filter.mp hd).1
    omega
  have hgshape : (reduceGroups view axes).shape = sS' := by
    show ((List.range view.shape.length).filter (fun a => !axes.contains a)).map (fun a => view.shape.getD a 0) = _
    rw [hshape, List.length_append, ← hlp, ← hls, Usid.ReduceFile.keep_axes plabs slabs dims hnd hdims, hallP,
      List.nil_append, List.map_map]
    apply List.map_congr_left
    intro d hd
    have hdk := hKSlt d hd
    simp only [Function.comp]
    rw [hlp]
    simp [sizeFn, List.getD_eq_getElem?_getD, List.getElem?_append_right, List.getElem?_eq_getElem hdk]
  obtain ⟨R, hR, hRshape, hRget⟩ := Usid.C10.flatten_squeezed_pos (reduceGroups view axes) sS' sR' hS'
    (by rw [hlenS']; exact hkS) (by rw [hlenS']; exact hks2) hgshape
  have hmS : ncols (gridMatrix sS' sR') = npoints (sizeFn sS') sR' := by
    unfold ncols gridMatrix
    obtain ⟨n, hn⟩ : ∃ n, sS'.length = n + 1 := ⟨sS'.length - 1, by omega⟩
    rw [hn, List.range_succ_eq_map]
    simp [gridRow]
  refine ⟨⟨R, newSide (sideK pS pR plabs punits pV) dims, newSide (sideK sS sR slabs sunits sV) dims,
      !dims.any (fun d => (sideK pS pR plabs punits pV).labels.contains d),
      !dims.any (fun d => (sideK sS sR slabs sunits sV).labels.contains d)⟩, ?_, hposSide, hspecSide, hS', hRshape, ?_⟩
  · unfold reduceToFile
    have ht : transposeM ([[0]] : List (List Nat)) = [[0]] := by decide
    have hR' : reshapeFromNDimsBoth (reduceGroups view axes) [[0]]
        (gridMatrix ((keptOf slabs dims).map (sizeFn sS)) (rateOf sR (keptOf slabs dims))) = .ok R := hR
    have hmS' : ncols (gridMatrix ((keptOf slabs dims).map (sizeFn sS)) (rateOf sR (keptOf slabs dims))) =
        npoints (sizeFn sS') sR' := hmS
    simp only [hmem, hposSide, hspecSide, ht, hR', hRshape, hmS', List.length_cons, List.length_nil,
      List.getD_cons_zero, List.getD_cons_succ, bne_self_eq_false, Bool.or_self, Bool.false_eq_true, if_false]
  · intro c hc
    rw [hlenS'] at hRget
    exact hRget c hc

open Usid.Grid Usid.C09 Usid.ReduceAnc Usid.Relabel Usid.Reshape Usid.Dims in
/-- **On file, every spectroscopic dimension reduced**: the mirror image - N' x 1, element (r, 0) = the cell at
    the position indices of row r. -/
theorem file_form_spec_reduced (view : NDArr α) (pS pR sS sR : List Nat) (plabs slabs punits sunits : List String)
    (pV sV : List (List Int)) (dims : List String)
    (hP : ValidGrid pS pR)
    (hlp : plabs.length = pS.length) (hls : slabs.length = sS.length) (hup : punits.length = pS.length)
    (hks : 1 ≤ sS.length)
    (hnd : (plabs ++ slabs).Nodup) (hshape : view.shape = pS ++ sS)
    (hne : dims ≠ []) (hdims : ∀ d ∈ dims, d ∈ plabs ++ slabs)
    (hallS : keptOf slabs dims = []) (hkp2 : 2 ≤ (keptOf plabs dims).length)
    (hkP : (keptOf plabs dims).length ≤
      npoints (sizeFn ((keptOf plabs dims).map (sizeFn pS))) (rateOf pR (keptOf plabs dims))) :
    let KP := keptOf plabs dims
    let pS' := KP.map (sizeFn pS)
    let pR' := rateOf pR KP
    let axes := dims.map (fun d => (plabs ++ slabs).findIdx (· == d))
    ∃ res, reduceToFile view (plabs ++ slabs) (sideK pS pR plabs punits pV) (sideK sS sR slabs sunits sV) dims = .ok res ∧
      res.pos = ⟨KP.map (fun d => plabs.getD d ""), KP.map (fun d => punits.getD d ""), gridMatrix pS' pR',
                 valueMatrix pS' pR' (KP.map (fun d => pV.getD d []))⟩ ∧
      res.spec = { labels := ["Single_Step"], units := ["a. u."], inds := [[0]], vals := [[0]] } ∧
      ValidGrid pS' pR' ∧
      res.data.shape = [npoints (sizeFn pS') pR', 1] ∧
      ∀ r, r < npoints (sizeFn pS') pR' →
        res.data.get [r, 0] = (reduceGroups view axes).get (coords pS' pR' r (List.range KP.length)) := by
  intro KP pS' pR' axes
  obtain ⟨p0, hp0⟩ : ∃ p0, p0 ∈ keptOf plabs dims := by
    cases hk : keptOf plabs dims with
    | nil => rw [hk] at hkp2; simp at hkp2
    | cons a _ => exact ⟨a, List.mem_cons_self⟩
  have hspecSide := side_all_reduced sS sR slabs sunits sV dims hls hks hallS
  obtain ⟨hposSide, hP'⟩ := side_after pS pR plabs punits pV dims hP hlp hup p0 hp0
  have hlenP' : pS'.length = KP.length := by simp [pS']
  have hkp2' : 2 ≤ KP.length := hkp2
  have hmem : reduceMem view (plabs ++ slabs) dims = .ok (reduceGroups view axes) := by
    unfold reduceMem
    have h1 : dims.isEmpty = false := by
      cases dims with
      | nil => exact absurd rfl hne
      | cons _ _ => rfl
    have h2 : dims.all (fun d => (plabs ++ slabs).contains d) = true := by
      rw [List.all_eq_true]; intro d hd; simpa using hdims d hd
    simp only [h1, h2, Bool.false_eq_true, if_false, Bool.not_true]
    rfl
  have hKPlt : ∀ d ∈ KP, d < pS.length := by
    intro d hd
    have := List.mem_range.mp (List.mem_filter.mp hd).1
    omega
  have hgshape : (reduceGroups view axes).shape = pS' := by
    show ((List.range view.shape.length).filter (fun a => !axes.contains a)).map (fun a => view.shape.getD a 0) = _
    rw [hshape, List.length_append, ← hlp, ← hls, Usid.ReduceFile.keep_axes plabs slabs dims hnd hdims, hallS,
      List.map_nil, List.append_nil]
    apply List.map_congr_left
    intro d hd
    have hdk := hKPlt d hd
    simp [sizeFn, List.getD_eq_getElem?_getD, List.getElem?_append_left hdk, List.getElem?_eq_getElem hdk]
  have hNP : 0 < npoints (sizeFn pS') pR' := by
    obtain ⟨_, hpos, _⟩ := valid_facts pS' pR' hP'
    exact prod_pos _ pR' (fun e he => (hpos e he).2)
  have hgm_ne : gridMatrix pS' pR' ≠ [] := by
    unfold gridMatrix
    rw [hlenP']
    intro hh
    have := congrArg List.length hh
    have h0 : KP.length = 0 := by simpa using this
    omega
  have hrowlen : ∀ row ∈ gridMatrix pS' pR', row.length = npoints (sizeFn pS') pR' := by
    intro row hr
    unfold gridMatrix at hr
    obtain ⟨d, _, rfl⟩ := List.mem_map.mp hr
    simp [gridRow]
  have htt := Usid.ReduceFile.transposeM_transposeM (gridMatrix pS' pR') _ hgm_ne hNP hrowlen
  have hrows : (transposeM (gridMatrix pS' pR')).length = npoints (sizeFn pS') pR' := by
    unfold gridMatrix
    obtain ⟨n, hn⟩ : ∃ n, pS'.length = n + 1 := ⟨pS'.length - 1, by omega⟩
    rw [hn, List.range_succ_eq_map]
    simp [transposeM, gridRow]
  have hcols : ncols (transposeM (gridMatrix pS' pR')) = pS'.length := by
    unfold ncols
    obtain ⟨n, hn⟩ : ∃ n, pS'.length = n + 1 := ⟨pS'.length - 1, by omega⟩
    obtain ⟨m, hm⟩ : ∃ m, npoints (sizeFn pS') pR' = m + 1 := ⟨npoints (sizeFn pS') pR' - 1, by omega⟩
    unfold gridMatrix
    rw [hn, List.range_succ_eq_map]
    simp only [transposeM, List.map_cons, gridRow, List.length_map, List.length_range]
    rw [hm, List.range_succ_eq_map]
    simp
  obtain ⟨R, hR, hRshape, hRget⟩ := Usid.C10.flatten_squeezed_spec (reduceGroups view axes) pS' pR'
    (transposeM (gridMatrix pS' pR')) hP' (by rw [hlenP']; exact hkP) (by rw [hlenP']; exact hkp2) htt hrows hcols hgshape
  refine ⟨⟨R, newSide (sideK pS pR plabs punits pV) dims, newSide (sideK sS sR slabs sunits sV) dims,
      !dims.any (fun d => (sideK pS pR plabs punits pV).labels.contains d),
      !dims.any (fun d => (sideK sS sR slabs sunits sV).labels.contains d)⟩, ?_, hposSide, hspecSide, hP', hRshape, ?_⟩
  · unfold reduceToFile
    have hnc : ncols ([[0]] : List (List Nat)) = 1 := rfl
    have hR' : reshapeFromNDimsBoth (reduceGroups view axes)
        (transposeM (gridMatrix ((keptOf plabs dims).map (sizeFn pS)) (rateOf pR (keptOf plabs dims)))) [[0]] = .ok R := hR
    have hrows' : (transposeM (gridMatrix ((keptOf plabs dims).map (sizeFn pS)) (rateOf pR (keptOf plabs dims)))).length =
        npoints (sizeFn pS') pR' := hrows
    simp only [hmem, hposSide, hspecSide, hnc, hR', hRshape, hrows', List.length_cons, List.length_nil,
      List.getD_cons_zero, List.getD_cons_succ, bne_self_eq_false, Bool.or_self, Bool.false_eq_true, if_false]
  · intro r hr
    rw [hlenP'] at hRget
    exact hRget r hr

open Usid.Grid Usid.C09 Usid.ReduceAnc Usid.Relabel Usid.Reshape Usid.Dims in
/-- the kept part of a file-order index, side by side -/
theorem kept_of_full (plabs slabs dims : List String) (hnd : (plabs ++ slabs).Nodup)
    (hdims : ∀ d ∈ dims, d ∈ plabs ++ slabs) (iP iS : List Nat) (hl : iP.length = plabs.length) :
    (keepAxes (plabs.length + slabs.length) (dims.map (fun d => (plabs ++ slabs).findIdx (· == d)))).map
        (fun a => (iP ++ iS).getD a 0) =
      (keptOf plabs dims).map (fun d => iP.getD d 0) ++ (keptOf slabs dims).map (fun d => iS.getD d 0) := by
  unfold keepAxes
  rw [Usid.ReduceFile.keep_axes plabs slabs dims hnd hdims, List.map_append, List.map_map]
  congr 1
  · apply List.map_congr_left
    intro d hd
    have : d < plabs.length := List.mem_range.mp (List.mem_filter.mp hd).1
    exact getD_append_lt iP iS d 0 (by omega)
  · apply List.map_congr_left
    intro d _
    simp only [Function.comp]
    rw [← hl]
    exact getD_append_shift iP iS d 0

open Usid.Grid Usid.C09 Usid.ReduceAnc Usid.Relabel Usid.Reshape Usid.Dims in
/-- shape of the reduced array of a file-order view -/
theorem reduced_shape (view : NDArr α) (pS sS : List Nat) (plabs slabs dims : List String)
    (hlp : plabs.length = pS.length) (hls : slabs.length = sS.length)
    (hnd : (plabs ++ slabs).Nodup) (hshape : view.shape = pS ++ sS) (hdims : ∀ d ∈ dims, d ∈ plabs ++ slabs) :
    (keepAxes view.shape.length (dims.map (fun d => (plabs ++ slabs).findIdx (· == d)))).map (fun a => view.shape.getD a 0) =
      (keptOf plabs dims).map (sizeFn pS) ++ (keptOf slabs dims).map (sizeFn sS) := by
  have hKPlt : ∀ d ∈ keptOf plabs dims, d < pS.length := by
    intro d hd
    have := List.mem_range.mp (List.mem_filter.mp hd).1
    omega
  have hKSlt : ∀ d ∈ keptOf slabs dims, d < sS.length := by
    intro d hd
    have := List.mem_range.mp (List.mem_filter.mp hd).1
    omega
  unfold keepAxes
  rw [hshape, List.length_append, ← hlp, ← hls, Usid.ReduceFile.keep_axes plabs slabs dims hnd hdims, List.map_append, List.map_map]
  congr 1
  · apply List.map_congr_left
    intro d hd
    have hdk := hKPlt d hd
    simp [sizeFn, List.getD_eq_getElem?_getD, List.getElem?_append_left hdk, List.getElem?_eq_getElem hdk]
  · apply List.map_congr_left
    intro d hd
    have hdk := hKSlt d hd
    simp only [Function.comp]
    rw [hlp]
    simp [sizeFn, List.getD_eq_getElem?_getD, List.getElem?_append_right, List.getElem?_eq_getElem hdk]

open Usid.Grid Usid.C09 Usid.ReduceAnc Usid.Relabel Usid.Reshape Usid.Dims in
theorem coords_getD (sizes rate : List Nat) (r d : Nat) (hd : d < sizes.length) :
    (coords sizes rate r (List.range sizes.length)).getD d 0 = gridIdx (sizeFn sizes) rate r d := by
  simp [coords, List.getD_eq_getElem?_getD, List.getElem?_map, List.getElem?_range hd]

open Usid.Grid Usid.C09 Usid.ReduceAnc Usid.Relabel Usid.Reshape Usid.Dims in
/-- **On file, end to end: every written element is the reduction of EXACTLY the source elements sharing its
    remaining coordinates.**  `mainget r c` stands for `main[r, c]`; `view` is any array that is the coordinate
    map of it (what `reshape_to_n_dims` returns: C01 `coordinate_map`).  Under the hypotheses of `file_form`,
    for every row r' and column c' of the written dataset, with coordinates read from the NEW ancillaries:
    (1) every source element `main[r, c]` whose remaining coordinates are those of (r', c') is in the cell that
    the reduction function is applied to; (2) every member of the cell is such an element; (3) the cell has
    exactly one member per combination of indices of the reduced dimensions - none missing, none twice. -/
theorem file_cells_exact (view : NDArr α) (mainget : Nat → Nat → α) (pS pR sS sR : List Nat)
    (plabs slabs punits sunits : List String) (pV sV : List (List Int)) (dims : List String)
    (hP : ValidGrid pS pR) (hS : ValidGrid sS sR)
    (hlp : plabs.length = pS.length) (hls : slabs.length = sS.length)
    (hup : punits.length = pS.length) (hus : sunits.length = sS.length)
    (hnd : (plabs ++ slabs).Nodup) (hshape : view.shape = pS ++ sS)
    (hne : dims ≠ []) (hdims : ∀ d ∈ dims, d ∈ plabs ++ slabs)
    (p0 : Nat) (hp0 : p0 ∈ keptOf plabs dims) (s0 : Nat) (hs0 : s0 ∈ keptOf slabs dims)
    (hkP : (keptOf plabs dims).length ≤
      npoints (sizeFn ((keptOf plabs dims).map (sizeFn pS))) (rateOf pR (keptOf plabs dims)))
    (hkS : (keptOf slabs dims).length ≤
      npoints (sizeFn ((keptOf slabs dims).map (sizeFn sS))) (rateOf sR (keptOf slabs dims)))
    (hview : ∀ r c, r < npoints (sizeFn pS) pR → c < npoints (sizeFn sS) sR →
      view.get (coords pS pR r (List.range pS.length) ++ coords sS sR c (List.range sS.length)) = mainget r c) :
    let KP := keptOf plabs dims
    let KS := keptOf slabs dims
    let pS' := KP.map (sizeFn pS)
    let pR' := rateOf pR KP
    let sS' := KS.map (sizeFn sS)
    let sR' := rateOf sR KS
    let axes := dims.map (fun d => (plabs ++ slabs).findIdx (· == d))
    let keptP := fun r => KP.map (fun d => gridIdx (sizeFn pS) pR r d)
    let keptS := fun c => KS.map (fun d => gridIdx (sizeFn sS) sR c d)
    ∃ res, reduceToFile view (plabs ++ slabs) (sideK pS pR plabs punits pV) (sideK sS sR slabs sunits sV) dims = .ok res ∧
      ∀ r' c', r' < npoints (sizeFn pS') pR' → c' < npoints (sizeFn sS') sR' →
        (∀ r c, r < npoints (sizeFn pS) pR → c < npoints (sizeFn sS) sR →
          keptP r = coords pS' pR' r' (List.range KP.length) → keptS c = coords sS' sR' c' (List.range KS.length) →
          mainget r c ∈ res.data.get [r', c']) ∧
        (∀ x ∈ res.data.get [r', c'], ∃ r c, r < npoints (sizeFn pS) pR ∧ c < npoints (sizeFn sS) sR ∧
          keptP r = coords pS' pR' r' (List.range KP.length) ∧ keptS c = coords sS' sR' c' (List.range KS.length) ∧
          x = mainget r c) ∧
        (res.data.get [r', c']).length =
          ((redAxes view.shape.length axes).map (fun a => view.shape.getD a 0)).prod := by
  intro KP KS pS' pR' sS' sR' axes keptP keptS
  obtain ⟨res, hres, _, _, hP', hS', _, hget⟩ := file_form view pS pR sS sR plabs slabs punits sunits pV sV dims
    hP hS hlp hls hup hus hnd hshape hne hdims p0 hp0 s0 hs0 hkP hkS
  refine ⟨res, hres, ?_⟩
  intro r' c' hr' hc'
  have hrank : view.shape.length = plabs.length + slabs.length := by rw [hshape, List.length_append, hlp, hls]
  have hlenP' : pS'.length = KP.length := by simp [pS']
  have hlenS' : sS'.length = KS.length := by simp [sS']
  -- the index of the kept axes that addresses the cell
  have hkshape := reduced_shape view pS sS plabs slabs dims hlp hls hnd hshape hdims
  have hbP := coords_inBounds pS' pR' hP' r'
  have hbS := coords_inBounds sS' sR' hS' c'
  rw [hlenP'] at hbP
  rw [hlenS'] at hbS
  have hki : InBounds ((keepAxes view.shape.length axes).map (fun a => view.shape.getD a 0))
      (coords pS' pR' r' (List.range KP.length) ++ coords sS' sR' c' (List.range KS.length)) := by
    rw [hkshape]; exact inBounds_append _ _ _ _ hbP hbS
  have hcell : res.data.get [r', c'] =
      (cartesian ((redAxes view.shape.length axes).map (fun a => List.range (view.shape.getD a 0)))).map
        (fun ri => view.get (fullIdx view.shape.length axes
          (coords pS' pR' r' (List.range KP.length) ++ coords sS' sR' c' (List.range KS.length)) ri)) := by
    rw [hget r' c' hr' hc']
    exact cell_at view axes _ hki
  -- the kept part of the file-order index of (r, c)
  have hkept : ∀ r c, (keepAxes view.shape.length axes).map
      (fun a => (coords pS pR r (List.range pS.length) ++ coords sS sR c (List.range sS.length)).getD a 0) =
      keptP r ++ keptS c := by
    intro r c
    rw [hrank, kept_of_full plabs slabs dims hnd hdims _ _ (by simp [coords, hlp])]
    congr 1
    · apply List.map_congr_left
      intro d hd
      have : d < pS.length := by
        have := List.mem_range.mp (List.mem_filter.mp hd).1; omega
      exact coords_getD pS pR r d this
    · apply List.map_congr_left
      intro d hd
      have : d < sS.length := by
        have := List.mem_range.mp (List.mem_filter.mp hd).1; omega
      exact coords_getD sS sR c d this
  refine ⟨?_, ?_, ?_⟩
  · intro r c hr hc hkp hks
    have hb : InBounds view.shape (coords pS pR r (List.range pS.length) ++ coords sS sR c (List.range sS.length)) := by
      rw [hshape]; exact inBounds_append _ _ _ _ (coords_inBounds pS pR hP r) (coords_inBounds sS sR hS c)
    have hmem := (cell_exact view axes _ hb).2.1
    unfold keepAxes redAxes at hmem
    have hk' := hkept r c
    unfold keepAxes at hk'
    rw [hk', hkp, hks, hview r c hr hc] at hmem
    rw [hcell]
    exact hmem
  · intro x hx
    rw [hcell] at hx
    obtain ⟨ri, hri, rfl⟩ := List.mem_map.mp hx
    have hrib := (mem_redIdx view.shape _ ri).mp hri
    have hfb := fullIdx_inBounds view.shape axes _ ri hki hrib
    have hfb' : InBounds (pS ++ sS) (fullIdx view.shape.length axes
        (coords pS' pR' r' (List.range KP.length) ++ coords sS' sR' c' (List.range KS.length)) ri) := by
      rw [← hshape]; exact hfb
    obtain ⟨iP, iS, hsplit, hbiP, hbiS⟩ := Usid.C10.inBounds_split pS sS _ hfb'
    obtain ⟨r, hr, hcr⟩ := coords_surj pS pR hP iP hbiP
    obtain ⟨c, hc, hcc⟩ := coords_surj sS sR hS iS hbiS
    have hkeep := fullIdx_keep view.shape.length axes
      (coords pS' pR' r' (List.range KP.length) ++ coords sS' sR' c' (List.range KS.length)) ri
      (by rw [← Usid.Translate.inBounds_length _ _ hki]; simp)
    have hk' := hkept r c
    rw [hcr, hcc, ← hsplit] at hk'
    rw [hkeep] at hk'
    -- split the equality of the two concatenations at the (equal) lengths of their first halves
    have hl1 : (coords pS' pR' r' (List.range KP.length)).length = (keptP r).length := by simp [coords, keptP]
    have hsp := List.append_inj hk' hl1
    refine ⟨r, c, hr, hc, hsp.1.symm, hsp.2.symm, ?_⟩
    rw [hsplit, ← hcr, ← hcc]
    exact hview r c hr hc
  · rw [hcell, List.length_map, cartesian_length]
    simp [List.map_map, Function.comp_def]

/-- the hypotheses of `file_form` are satisfiable: a 2 x 3 position grid stored slowest first, a 2 x 2
    spectroscopic grid, reducing the second position dimension -/
example : Usid.C09.ValidGrid [2, 3] [1, 0] ∧ Usid.C09.ValidGrid [2, 2] [0, 1] ∧
    Usid.ReduceAnc.keptOf ["a", "b"] ["b"] = [0] ∧ Usid.ReduceAnc.keptOf ["c", "d"] ["b"] = [0, 1] ∧
    (["a", "b"] ++ ["c", "d"]).Nodup := by
  refine ⟨⟨by decide, by decide⟩, ⟨by decide, by decide⟩, by decide, by decide, by decide⟩

end Usid.C12
