import Usid.Proofs.Groups
/-! C13 — indexed and results groups get fresh, monotone, collision-free names. -/
namespace Usid.C13
open Usid Usid.Grp

/-- Every request on every parent group (whatever siblings of whatever kind it holds) succeeds; the
    created name is `<base>_` followed by the zero-padded number that is one more than the highest number
    used for exactly that prefix (0 if none); it was absent; and nothing else changes. -/
theorem fresh_monotone (par : Parent) (base : Str) (hb : base ≠ []) :
    ∃ n, createIndexed par base = .ok (par ++ [⟨withUnderscore base ++ fmt03 n, .group, none, none, none⟩],
                                        withUnderscore base ++ fmt03 n) ∧
      withUnderscore base ++ fmt03 n ∉ names par ∧
      (∀ e ∈ par, ∀ k, indexOf (withUnderscore base) e.name = some k → k < n) ∧
      (n = 0 ∨ ∃ e ∈ par, indexOf (withUnderscore base) e.name = some (n - 1)) :=
  ⟨nextIndex (withUnderscore base) par, createIndexed_ok par base hb, fresh _ par,
    (nextIndex_spec _ par).1, (nextIndex_spec _ par).2⟩

/-- The same for results groups `<dataset>-<tool>_NNN` (with '-' in the tool name replaced by '_'). -/
theorem fresh_monotone_results (par : Parent) (d t : Str) (same : Bool) (sid : Str) :
    ∃ n, createResults par d t same sid =
        .ok (par ++ [⟨resultsPrefix d t ++ fmt03 n, .group, some (normTool t), if same then some d else none,
                      if same then some sid else none⟩],
             resultsPrefix d t ++ fmt03 n) ∧
      resultsPrefix d t ++ fmt03 n ∉ names par ∧
      (∀ e ∈ par, ∀ k, indexOf (resultsPrefix d t) e.name = some k → k < n) ∧
      (n = 0 ∨ ∃ e ∈ par, indexOf (resultsPrefix d t) e.name = some (n - 1)) :=
  ⟨nextIndex (resultsPrefix d t) par, createResults_ok par d t same sid, fresh _ par,
    (nextIndex_spec _ par).1, (nextIndex_spec _ par).2⟩

/-- "Exactly that base": a sibling name carries an index for at most one underscore-terminated base, so
    names of longer or shorter bases (`A_B_000`, `A_A_005` for base `A`) are never counted. -/
theorem exactly_that_base (b b' name : Str) (k k' : Nat)
    (h : indexOf (withUnderscore b) name = some k) (h' : indexOf (withUnderscore b') name = some k') :
    withUnderscore b = withUnderscore b' ∧ k = k' := by
  have e := base_unique b b' name (hasPrefixIndex_of_indexOf _ _ _ h) (hasPrefixIndex_of_indexOf _ _ _ h')
  refine ⟨e, ?_⟩
  rw [e] at h; rw [h] at h'; injection h'

def validOp : Op → Prop
  | .indexed b => b ≠ []
  | _ => True

/-- Any history of create / delete requests: every create succeeds and names stay pairwise distinct. -/
theorem history_all_succeed (ops : List Op) (par : Parent) (hv : ∀ op ∈ ops, validOp op)
    (hnd : (names par).Nodup) :
    (∀ o ∈ (runOps par ops).2, ∃ n, o = Except.ok n) ∧ (names (runOps par ops).1).Nodup := by
  induction ops generalizing par with
  | nil => simp [runOps, hnd]
  | cons op ops ih =>
    have hvo := hv op List.mem_cons_self
    have hvs : ∀ op' ∈ ops, validOp op' := fun op' h => hv op' (List.mem_cons_of_mem _ h)
    simp only [runOps]
    cases op with
    | indexed b =>
      have hok := createIndexed_ok par b hvo
      have hnd' : (names (par ++ [idxEntry par b])).Nodup := by
        simp only [names, List.map_append, List.map_cons, List.map_nil]
        exact List.nodup_append.mpr ⟨hnd, by simp, by
          intro a ha b' hb'; simp at hb'; subst hb'; intro h; subst h; exact fresh _ par ha⟩
      simp only [stepOp, hok]
      have := ih _ hvs hnd'
      refine ⟨?_, this.2⟩
      intro o ho
      rcases List.mem_cons.mp ho with rfl | ho
      · exact ⟨_, rfl⟩
      · exact this.1 o ho
    | results d t s sid =>
      have hok := createResults_ok par d t s sid
      have hnd' : (names (par ++ [resEntry par d t s sid])).Nodup := by
        simp only [names, List.map_append, List.map_cons, List.map_nil]
        exact List.nodup_append.mpr ⟨hnd, by simp, by
          intro a ha b' hb'; simp at hb'; subst hb'; intro h; subst h; exact fresh _ par ha⟩
      simp only [stepOp, hok]
      have := ih _ hvs hnd'
      refine ⟨?_, this.2⟩
      intro o ho
      rcases List.mem_cons.mp ho with rfl | ho
      · exact ⟨_, rfl⟩
      · exact this.1 o ho
    | del n =>
      have hnd' : (names (delete par n)).Nodup := by
        unfold names delete
        exact (List.Sublist.map _ List.filter_sublist).nodup hnd
      simp only [stepOp]
      have := ih _ hvs hnd'
      refine ⟨?_, this.2⟩
      intro o ho
      rcases List.mem_cons.mp ho with rfl | ho
      · exact ⟨_, rfl⟩
      · exact this.1 o ho

theorem split_unique {α : Type} (c : α) : ∀ (l1 l2 r1 r2 : List α), c ∉ l1 → c ∉ l2 →
    l1 ++ c :: r1 = l2 ++ c :: r2 → l1 = l2 ∧ r1 = r2
  | [], [], _, _, _, _, h => by simpa using h
  | [], y :: l2, _, _, _, h2, h => by
    simp at h; exact absurd h.1 (by intro e; exact h2 (by rw [e]; exact List.mem_cons_self))
  | x :: l1, [], _, _, h1, _, h => by
    simp at h; exact absurd h.1 (by intro e; exact h1 (by rw [← e]; exact List.mem_cons_self))
  | x :: l1, y :: l2, r1, r2, h1, h2, h => by
    simp only [List.cons_append, List.cons.injEq] at h
    have := split_unique c l1 l2 r1 r2 (fun hm => h1 (List.mem_cons_of_mem _ hm))
      (fun hm => h2 (List.mem_cons_of_mem _ hm)) h.2
    exact ⟨by rw [h.1, this.1], this.2⟩

theorem name_inj : ∀ (par : Parent), (names par).Nodup → ∀ a ∈ par, ∀ b ∈ par, a.name = b.name → a = b
  | [], _, a, ha, _, _, _ => by simp at ha
  | x :: xs, h, a, ha, b, hb, hab => by
    unfold names at h
    rw [List.map_cons, List.nodup_cons] at h
    rcases List.mem_cons.mp ha with rfl | ha'
    · rcases List.mem_cons.mp hb with rfl | hb'
      · rfl
      · exact absurd (List.mem_map.mpr ⟨b, hb', hab.symm⟩) h.1
    · rcases List.mem_cons.mp hb with rfl | hb'
      · exact absurd (List.mem_map.mpr ⟨a, ha', hab⟩) h.1
      · exact name_inj xs h.2 a ha' b hb' hab

/-- Looking up (dataset, tool) returns exactly the groups created for that pair: a group created for
    `(d', t')` is found by the look-up for `(d, t)` iff `d' = d`, the (normalised) tool names agree - however
    the names overlap as prefixes or substrings - and, when the look-up happens in the file of the dataset, the
    group does not record ANOTHER dataset (one that merely carries the same name) as its source.
    (Dataset names without '-'.) -/
theorem lookup_exact (par : Parent) (d t d' t' : Str) (n : Nat) (hd : '-' ∉ d) (hd' : '-' ∉ d')
    (same : Bool) (sid : Str)
    (e : Entry) (he : e ∈ par) (hk : e.kind = .group) (hname : e.name = resultsPrefix d' t' ++ fmt03 n)
    (hnd : (names par).Nodup) :
    e.name ∈ findResults par d t same sid ↔
      (d' = d ∧ normTool t' = normTool t ∧ ¬ (same = true ∧ e.sourceId.isSome = true ∧ e.sourceId ≠ some sid)) := by
  -- entries are identified by their names
  have huniq : ∀ e2 ∈ par, e2.name = e.name → e2 = e := by
    intro e2 he2 hn
    exact name_inj par hnd e2 he2 e he hn
  constructor
  · intro h
    unfold findResults at h
    obtain ⟨e2, he2, hn2⟩ := List.mem_map.mp h
    have hmem := (List.mem_filter.mp he2).1
    have hf := (List.mem_filter.mp he2).2
    have he2e : e2 = e := huniq e2 hmem hn2
    subst he2e
    simp only [Bool.and_eq_true, decide_eq_true_eq, Option.isSome_iff_exists, Bool.not_eq_true'] at hf
    obtain ⟨⟨_, k, hk2⟩, hsrc⟩ := hf
    rw [hname] at hk2
    have h1 : HasPrefixIndex (resultsPrefix d t) (resultsPrefix d' t' ++ fmt03 n) :=
      hasPrefixIndex_of_indexOf _ _ _ hk2
    have h2 : HasPrefixIndex (resultsPrefix d' t') (resultsPrefix d' t' ++ fmt03 n) :=
      hasPrefixIndex_of_indexOf _ _ _ (indexOf_fmt _ n)
    have hl : ∀ a b : Str, (resultsPrefix a b).getLast? = some '_' := by
      intro a b; unfold resultsPrefix; rw [List.getLast?_append]; simp
    have heq := prefix_unique _ _ _ (hl d t) (hl d' t') h1 h2
    unfold resultsPrefix at heq
    simp only [List.append_assoc, List.singleton_append] at heq
    have := split_unique '-' d d' _ _ hd hd' heq
    refine ⟨this.1.symm, ?_, ?_⟩
    · have h3 := this.2
      exact (List.append_cancel_right h3).symm
    · rintro ⟨hs, hsome, hne⟩
      rw [hs] at hsrc
      have : (e2.sourceId.isSome && (e2.sourceId != some sid)) = true := by
        simp [hsome, hne]
      simp [this] at hsrc
  · rintro ⟨rfl, ht, hsrc⟩
    unfold findResults
    refine List.mem_map.mpr ⟨e, List.mem_filter.mpr ⟨he, ?_⟩, rfl⟩
    have : resultsPrefix d' t = resultsPrefix d' t' := by unfold resultsPrefix; rw [ht]
    simp only [Bool.and_eq_true, decide_eq_true_eq, hk, true_and, this, hname, indexOf_fmt, Bool.not_eq_true']
    refine ⟨rfl, ?_⟩
    cases hs : same with
    | false => simp
    | true =>
      cases hso : e.sourceId with
      | none => simp
      | some x =>
        by_cases hx : x = sid
        · simp [hx]
        · exfalso
          apply hsrc
          refine ⟨hs, by simp [hso], ?_⟩
          rw [hso]; intro hh; exact hx (Option.some.inj hh)

theorem normTool_no_dash (t : Str) : '-' ∉ normTool t := by
  unfold normTool
  intro h
  obtain ⟨c, _, hc⟩ := List.mem_map.mp h
  by_cases hcd : c = '-'
  · simp [hcd] at hc
  · simp [hcd] at hc

theorem splitDash_noDash : ∀ (s : Str), '-' ∉ s → splitDash s = [s]
  | [], _ => rfl
  | c :: cs, h => by
    have hc : c ≠ '-' := fun e => h (by rw [e]; exact List.mem_cons_self)
    have ih := splitDash_noDash cs (fun hm => h (List.mem_cons_of_mem _ hm))
    simp [splitDash, hc, ih]

theorem splitDash_at : ∀ (d r : Str), '-' ∉ d → splitDash (d ++ '-' :: r) = d :: splitDash r
  | [], r, _ => by simp [splitDash]
  | c :: cs, r, h => by
    have hc : c ≠ '-' := fun e => h (by rw [e]; exact List.mem_cons_self)
    have ih := splitDash_at cs r (fun hm => h (List.mem_cons_of_mem _ hm))
    simp [splitDash, hc, ih]

theorem find_new (par : Parent) (e : Entry) (h : e.name ∉ names par) :
    (par ++ [e]).find? (fun x => x.name = e.name) = some e := by
  rw [List.find?_append]
  have : par.find? (fun x => decide (x.name = e.name)) = none := by
    rw [List.find?_eq_none]
    intro x hx
    have : x.name ≠ e.name := fun hne => h (hne ▸ List.mem_map.mpr ⟨x, hx, rfl⟩)
    simpa using this
  rw [this]; simp

/-- Provenance: a results group records its (normalised) tool and, within one file, its source; and the
    source dataset is recovered from it - through the recorded source wherever in the file the group was put,
    and through the group's name when it sits next to its source (e.g. a group in another file's copy). -/
theorem provenance (par : Parent) (d t : Str) (same : Bool) (sid : Str) (hd : '-' ∉ d) :
    ∃ par' name, createResults par d t same sid = .ok (par', name) ∧
      (∃ e ∈ par', e.name = name ∧ e.tool = some (normTool t) ∧ e.source = (if same then some d else none) ∧
        e.sourceId = (if same then some sid else none)) ∧
      (same = true → getSource par' name = .ok d) ∧
      (∀ src, par.find? (fun e => e.name = d) = some src → src.kind = .dataset → getSource par' name = .ok d) := by
  refine ⟨_, _, createResults_ok par d t same sid, ⟨resEntry par d t same sid, by simp, rfl, rfl, rfl, rfl⟩, ?_, ?_⟩
  · intro hs
    subst hs
    unfold getSource
    have := find_new par (resEntry par d t true sid) (fresh _ par)
    simp only [resEntry] at this ⊢
    rw [this]
    rfl
  · intro src hsrc hkind
    unfold getSource
    have hf := find_new par (resEntry par d t same sid) (fresh _ par)
    simp only [resEntry] at hf ⊢
    rw [hf]
    cases same with
    | true => rfl
    | false =>
      simp only [Option.bind_some, Bool.false_eq_true, if_false]
      unfold getSourceByName
      have hdig : '-' ∉ fmt03 (nextIndex (resultsPrefix d t) par) := by
        intro h
        have := List.all_eq_true.mp (fmt03_spec (nextIndex (resultsPrefix d t) par)).1 '-' h
        simp at this
      have hrest : '-' ∉ normTool t ++ ['_'] ++ fmt03 (nextIndex (resultsPrefix d t) par) := by
        simp only [List.mem_append, not_or]
        exact ⟨⟨normTool_no_dash t, by simp⟩, hdig⟩
      have hs : splitDash (resultsPrefix d t ++ fmt03 (nextIndex (resultsPrefix d t) par)) =
          [d, normTool t ++ ['_'] ++ fmt03 (nextIndex (resultsPrefix d t) par)] := by
        unfold resultsPrefix
        have : d ++ ['-'] ++ normTool t ++ ['_'] ++ fmt03 (nextIndex (d ++ ['-'] ++ normTool t ++ ['_']) par) =
            d ++ '-' :: (normTool t ++ ['_'] ++ fmt03 (nextIndex (d ++ ['-'] ++ normTool t ++ ['_']) par)) := by
          simp [List.append_assoc]
        rw [this, splitDash_at _ _ hd, splitDash_noDash _ (by simpa [resultsPrefix] using hrest)]
      rw [hs]
      simp only [List.find?_append, hsrc, Option.some_or, hkind, if_true]

example : (createIndexed [⟨"A_B_000".toList, .group, none, none, none⟩, ⟨"A_A_005".toList, .group, none, none, none⟩,
    ⟨"A_001".toList, .dataset, none, none, none⟩] "A".toList).toOption.map (fun r => String.ofList r.2) = some "A_002" := by
  decide

/-- **Parents do not see one another.**  For any history of requests addressed in turn to several parent groups of
    one file, what happens in parent `p` - its final members and the outcome of every request addressed to it, in
    order - is exactly what the sub-history addressed to `p` produces on `p` alone.  (This is what allows the
    correspondence to run the model once per parent.) -/
theorem parents_independent (p : Nat) : ∀ (h : List (Nat × Op)) (f : FileG), p < f.length →
    (runFile f h).1.getD p [] = (runOps (f.getD p []) ((h.filter (fun x => x.1 = p)).map (·.2))).1 ∧
    ((runFile f h).2.filter (fun x => x.1 = p)).map (·.2) =
      (runOps (f.getD p []) ((h.filter (fun x => x.1 = p)).map (·.2))).2 ∧
    (runFile f h).1.length = f.length
  | [], f, _ => by simp [runFile, runOps]
  | (q, op) :: h, f, hp => by
    have hlen : (stepAt f q op).1.length = f.length := by simp [stepAt]
    have ih := parents_independent p h (stepAt f q op).1 (by rw [hlen]; exact hp)
    by_cases hq : q = p
    · subst hq
      have hget : (stepAt f q op).1.getD q [] = (stepOp (f.getD q []) op).1 := by
        simp only [stepAt]
        rw [List.getD_eq_getElem?_getD, List.getElem?_set_self hp]; rfl
      simp only [runFile, List.filter_cons, decide_true, if_true, List.map_cons, runOps]
      rw [hget] at ih
      exact ⟨ih.1, by rw [ih.2.1]; rfl, by rw [ih.2.2, hlen]⟩
    · have hget : (stepAt f q op).1.getD p [] = f.getD p [] := by
        simp only [stepAt]
        rw [List.getD_eq_getElem?_getD, List.getElem?_set_ne hq]
        rfl
      have hd : decide (q = p) = false := by simp [hq]
      simp only [runFile, List.filter_cons, hd, Bool.false_eq_true, if_false]
      rw [hget] at ih
      exact ⟨ih.1, ih.2.1, by rw [ih.2.2, hlen]⟩

end Usid.C13
