import Usid.Generated.JobWindow
import Usid.Proofs.Process
import Usid.Proofs.Sync
/-! C14 — work is partitioned across ranks without gaps or overlap.
    `assign_job_indices` / `read_window` are GENERATED from process.py on every run. -/
namespace Usid.C14
open Usid Usid.Proc Usid.Generated

/-- The generated `__assign_job_indices` computes exactly the hand model's range, for every rank of
    every rank count ≥ 1 (including fewer jobs than ranks). -/
theorem generated_assign_eq_hand (jobs size rank batch : Nat) (hs : 0 < size) (hr : rank < size) :
    ∃ e, assign_job_indices (jobs : Int) (rank : Int) (size : Int) (batch : Int) =
      .ok ((rankStart jobs size rank : Nat), (rankEnd jobs size rank : Nat), e) := by
  unfold assign_job_indices pyFloorDiv rankStart rankEnd
  have hsz : (size : Int) ≠ 0 := by omega
  simp only [bind, Except.bind, pure, Except.pure, hsz, if_false, fquot, ← Int.ofNat_fdiv]
  by_cases hl : rank + 1 = size
  · have : (rank : Int) = (size : Int) - 1 := by omega
    simp [this, hl]
  · have : ¬ ((rank : Int) = (size : Int) - 1) := by omega
    simp only [this, if_false, hl]
    refine ⟨min (((rank : Int) + 1) * ((jobs / size : Nat) : Int))
      ((rank : Int) * ((jobs / size : Nat) : Int) + (batch : Int)), ?_⟩
    push_cast; rfl

/-- ... and the first batch end that `__assign_job_indices` leaves behind is exactly
    `min ((rank+1)·⌊jobs/size⌋) (rank·⌊jobs/size⌋ + batch)`: never beyond the rank's own range, never more than one
    batch past its start (the last rank's extension to `jobs` is applied to the range only, after this). -/
theorem generated_assign_first_end (jobs size rank batch : Nat) (hs : 0 < size) (hr : rank < size) :
    assign_job_indices (jobs : Int) (rank : Int) (size : Int) (batch : Int) =
      .ok ((rankStart jobs size rank : Nat), (rankEnd jobs size rank : Nat),
           ((min ((rank + 1) * (jobs / size)) (rank * (jobs / size) + batch) : Nat) : Int)) := by
  unfold assign_job_indices pyFloorDiv rankStart rankEnd
  have hsz : (size : Int) ≠ 0 := by omega
  simp only [bind, Except.bind, pure, Except.pure, hsz, if_false, fquot, ← Int.ofNat_fdiv]
  generalize jobs / size = q
  by_cases hl : rank + 1 = size
  · have hc : (rank : Int) = (size : Int) - 1 := by omega
    simp only [hc, hl, if_true]
    subst hl
    congr 3
    · push_cast; simp
    · simp only [Nat.add_mul, Nat.one_mul]
      push_cast
      simp only [Int.add_sub_cancel, Int.add_mul, Int.one_mul]
      omega
  · have : ¬ ((rank : Int) = (size : Int) - 1) := by omega
    simp only [this, if_false, hl]
    congr 3
    simp only [Nat.add_mul, Nat.one_mul]
    push_cast
    simp only [Int.add_mul, Int.one_mul]
    omega

/-- The generated batch window of `_read_data_chunk` is the hand model's window. -/
theorem generated_window_eq_hand (start stop batch e : Nat) :
    read_window (start : Int) (stop : Int) (batch : Int) (e : Int) =
      .ok (if start < stop then ((min stop (start + batch) : Nat) : Int) else (e : Int),
           if start < stop then 1 else 0) := by
  unfold read_window
  simp only [bind, Except.bind, pure, Except.pure]
  by_cases h : start < stop
  · have : (start : Int) < (stop : Int) := by omega
    simp only [this, h, if_true]
    congr 2
    omega
  · have : ¬ (start : Int) < (stop : Int) := by omega
    simp [this, h]

/-- The ranges are consecutive from 0 to `jobs`: first start, last end, and each end is the next start. -/
theorem ranges_partition (jobs size : Nat) (hs : 0 < size) :
    rankStart jobs size 0 = 0 ∧ rankEnd jobs size (size - 1) = jobs ∧
    (∀ r, r + 1 < size → rankEnd jobs size r = rankStart jobs size (r + 1)) ∧
    (∀ r, r < size → rankStart jobs size r ≤ rankEnd jobs size r) :=
  ⟨rank_first _ _, rank_last _ _ hs, fun r h => rank_consecutive _ _ r h, fun r h => rank_le _ _ r h⟩

/-- Every pending job index lies in the range of exactly one rank. -/
theorem ranges_cover_disjoint (jobs size j : Nat) (hs : 0 < size) (hj : j < jobs) :
    ∃ r, r < size ∧ (rankStart jobs size r ≤ j ∧ j < rankEnd jobs size r) ∧
      ∀ r', r' < size → (rankStart jobs size r' ≤ j ∧ j < rankEnd jobs size r') → r' = r := by
  obtain ⟨r, hr, h⟩ := rank_cover jobs size j hs hj
  exact ⟨r, hr, h, fun r' hr' h' => rank_disjoint jobs size r' r j hr' hr h' h⟩

/-- Mapped through the pending list: the ranks' position lists, concatenated in rank order, are
    exactly the pending positions (no gap, no overlap since the pending list has no duplicates). -/
theorem ranks_concat_eq_pending (status : List Nat) (size : Nat) (hs : 0 < size) :
    ((List.range size).map (fun r => pySlice (pending status)
        (rankStart (pending status).length size r) (rankEnd (pending status).length size r))).flatten
      = pending status ∧ (pending status).Nodup := by
  refine ⟨?_, pending_nodup status⟩
  rw [ranks_prefix (pending status) size size (Nat.le_refl _) hs]
  simp [pySlice]

/-- Rank `r` marks exactly its own range, in batches bounded by its limit, none empty. -/
theorem rank_batches (pend : List Nat) (size r batch : Nat) (hb : 0 < batch) :
    (rankBatches pend size r batch hb).flatten =
        pySlice pend (rankStart pend.length size r) (rankEnd pend.length size r) ∧
    ∀ b ∈ rankBatches pend size r batch hb, b.length ≤ batch := by
  refine ⟨rankBatches_flatten pend size r batch hb, ?_⟩
  intro b hb'
  unfold rankBatches at hb'
  obtain ⟨w, hw, rfl⟩ := List.mem_map.mp hb'
  have := windows_spec batch hb _ _ w hw
  have := length_pySlice_le pend w.1 w.2
  omega

/-- `group_ranks_by_socket`: the master of rank `r` is the lowest rank with the same processor name. -/
theorem socket_master (names : List String) (r : Nat) (hr : r < names.length) :
    ∃ m, (socketMasters names)[r]? = some m ∧ m ≤ r ∧ names[m]? = names[r]? ∧
      ∀ q, q < m → names[q]? ≠ names[r]? := by
  unfold socketMasters
  have hle : names.findIdx (· == names[r]) ≤ r := by
    rcases Nat.lt_or_ge r (names.findIdx (· == names[r])) with h | h
    · have := List.not_of_lt_findIdx h
      simp at this
    · exact h
  have hlt : names.findIdx (· == names[r]) < names.length := by omega
  refine ⟨names.findIdx (· == names[r]), by simp [hr], hle, ?_, ?_⟩
  · have := List.findIdx_getElem (p := (· == names[r])) (xs := names) (w := hlt)
    simp only [beq_iff_eq] at this
    rw [List.getElem?_eq_getElem hlt, List.getElem?_eq_getElem hr, this]
  · intro q hq
    have := List.not_of_lt_findIdx hq
    simp only [beq_eq_false_iff_ne, ne_eq] at this
    rw [List.getElem?_eq_getElem (by omega), List.getElem?_eq_getElem hr]
    simpa using this

example : rankStart 3 5 4 = 0 ∧ rankEnd 3 5 4 = 3 ∧ rankEnd 3 5 0 = 0 := by decide
example : socketMasters ["a", "b", "a", "c", "b"] = [0, 1, 0, 3, 1] := by decide

/-! ### synchronisation: for EVERY interleaving of the ranks -/
open Usid.Sync in
/-- **Every rank derives its range from the same completion status - under every schedule.**  `p` is the
    synchronisation skeleton of `compute()` (extracted from the source on every run: the order of `assign`,
    `barrier` and `mark` instructions, loops unrolled any number of times).  If it is `Safe` - a barrier after
    the one `assign`, no completion mark before that barrier - then for ANY number of ranks and ANY schedule
    (any interleaving that respects the barriers), a rank that has derived its range had seen no completion
    mark of anybody when it did so: all ranks partition the SAME pending list (to which `ranges_partition`
    applies). -/
theorem ranks_see_initial_status (p : Prog) (h : Safe p = true) (n : Nat) (sched : List Nat) (r : Nat) :
    (run p n init sched).seen r = none ∨ (run p n init sched).seen r = some 0 := by
  obtain ⟨i, j, F⟩ := safe_facts p h
  exact (inv_run p n i j F sched init (inv_init n j)).seen0 r

open Usid.Sync in
/-- the skeleton of the present `compute()` is safe ... -/
example : Safe [.other, .other, .assign, .barrier, .other, .barrier, .other, .other, .mark, .other, .barrier] = true := by
  decide

open Usid.Sync in
/-- ... and the hypothesis is needed: with the barrier BEFORE the assignment (the seeded change
    C14-barriers-rearranged) a slow rank derives its range after a fast one has marked a batch -/
example : Safe [.barrier, .assign, .other, .mark, .barrier] = false ∧
    (run [.barrier, .assign, .other, .mark, .barrier] 2 init [0, 1, 0, 0, 0, 1]).seen 1 = some 1 := by
  decide

end Usid.C14
