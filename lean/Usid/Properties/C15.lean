import Usid.Model.LoopGen
import Usid.Model.Memory
import Usid.Proofs.Process
/-! C15 — batch sizing honours the memory/core budget and compute() always terminates.
    `set_cores`, `set_memory`, `recommend_cpu_cores`, `read_window` are GENERATED from /repo on every run. -/
namespace Usid.C15
open Usid Usid.Generated Usid.Mem Usid.Proc

/-- budget: positions per batch × bytes per row × multiplier × workers never exceeds the granted memory
    (multiplier = num/den, so the inequality is stated multiplied through by `den`). -/
theorem budget (g workers rowBytes num den : Nat) :
    maxPos g workers rowBytes num den * rowBytes * num * workers ≤ g * den := by
  unfold maxPos
  have := Nat.div_mul_le_self (g * den) (workers * rowBytes * num)
  calc (g * den) / (workers * rowBytes * num) * rowBytes * num * workers
      = (g * den) / (workers * rowBytes * num) * (workers * rowBytes * num) := by
        simp only [Nat.mul_assoc, Nat.mul_comm, Nat.mul_left_comm]
    _ ≤ g * den := this

/-- the batch size does not decrease when the budget grows -/
theorem monotone (g g' workers rowBytes num den : Nat) (h : g ≤ g') :
    maxPos g workers rowBytes num den ≤ maxPos g' workers rowBytes num den := by
  unfold maxPos
  exact Nat.div_le_div_right (Nat.mul_le_mul_right _ h)

/-- and `granted` is monotone in the available memory and in the requested limit -/
theorem granted_monotone (a a' : Nat) (mb mb' : Nat) (ha : a ≤ a') (hm : mb ≤ mb') :
    granted a (some mb) ≤ granted a' (some mb') ∧ granted a none ≤ granted a' none ∧
    granted a (some mb) ≤ a := by
  simp only [granted]
  have : mb * 1024 ^ 2 ≤ mb' * 1024 ^ 2 := Nat.mul_le_mul_right _ hm
  refine ⟨?_, ha, Nat.min_le_left _ _⟩
  omega

/-- a budget that admits one row gives a batch of at least one position -/
theorem admits_one_row (g workers rowBytes num den : Nat) (hpos : 0 < workers * rowBytes * num)
    (h : workers * rowBytes * num ≤ g * den) : 1 ≤ maxPos g workers rowBytes num den := by
  unfold maxPos
  exact (Nat.le_div_iff_mul_le hpos).mpr (by simpa using h)

/-- The GENERATED `__set_memory` (translated from process.py on every run, floats as exact fractions) computes
    exactly the hand model's batch size for every valid configuration: any available memory, any requested limit
    of either sign, any multiplier `num/den ≥ 1`, any positive worker count and row size.  `budget`, `monotone`,
    `admits_one_row` below therefore speak about what the source says now. -/
theorem generated_set_memory_eq_hand (avail cores ranks itemsize cols num den : Nat) (mb : Option Int)
    (hden : 0 < den) (hmul : den ≤ num) (hw : 0 < cores * ranks) (hr : 0 < itemsize * cols) :
    set_memory (avail : Int) mb ⟨(num : Int), (den : Int)⟩ cores ranks itemsize cols =
      .ok ((maxPos (granted avail (mb.map Int.natAbs)) (cores * ranks) (itemsize * cols) num den : Nat) : Int) := by
  have hw' : ((cores : Int) * (ranks : Int)) ≠ 0 := by
    have : (0 : Int) < ((cores * ranks : Nat) : Int) := by exact_mod_cast hw
    push_cast at this; omega
  have hw'' : (0 : Int) < (cores : Int) * (ranks : Int) := by
    have : (0 : Int) < ((cores * ranks : Nat) : Int) := by exact_mod_cast hw
    push_cast at this; exact this
  have hnum : 0 < num := by omega
  have hb : (0 : Int) < (itemsize : Int) * (cols : Int) * (num : Int) := by
    have : (0 : Int) < ((itemsize * cols * num : Nat) : Int) := by
      exact_mod_cast Nat.mul_pos hr hnum
    push_cast at this; exact this
  have hb' : (itemsize : Int) * (cols : Int) * (num : Int) ≠ 0 := by omega
  have hlt : ¬ ((num : Int) * 1 < 1 * (den : Int)) := by omega
  cases mb with
  | none =>
    simp only [set_memory, bind, Except.bind, pure, Except.pure, PyQ.abs, PyQ.lt, PyQ.ofInt, PyQ.mul, PyQ.floor,
      pyTrueDiv, Int.natAbs_natCast, hlt, decide_false, hw', hw'', hb, hb', if_false, if_true, not_true_eq_false,
      Bool.false_eq_true, Option.map, granted, maxPos, fquot]
    simp only [Int.mul_one, Int.one_mul, Int.min_self]
    rw [show (avail : Int) * (den : Int) = ((avail * den : Nat) : Int) by push_cast; rfl,
        show (cores : Int) * (ranks : Int) * ((itemsize : Int) * (cols : Int) * (num : Int))
          = ((cores * ranks * (itemsize * cols) * num : Nat) : Int) by push_cast; simp [Int.mul_assoc],
        ← Int.ofNat_fdiv]
  | some m =>
    simp only [set_memory, bind, Except.bind, pure, Except.pure, PyQ.abs, PyQ.lt, PyQ.ofInt, PyQ.mul, PyQ.floor,
      pyTrueDiv, Int.natAbs_natCast, hlt, decide_false, hw', hw'', hb, hb', if_false, if_true, not_true_eq_false,
      Bool.false_eq_true, Option.map, granted, maxPos, fquot]
    simp only [Int.mul_one, Int.one_mul]
    rw [show min (avail : Int) (((m.natAbs : Nat) : Int) * (1024 : Int) ^ 2) = ((min avail (m.natAbs * 1024 ^ 2) : Nat) : Int) by
          omega,
        show ((min avail (m.natAbs * 1024 ^ 2) : Nat) : Int) * (den : Int) = ((min avail (m.natAbs * 1024 ^ 2) * den : Nat) : Int) by push_cast; rfl,
        show (cores : Int) * (ranks : Int) * ((itemsize : Int) * (cols : Int) * (num : Int))
          = ((cores * ranks * (itemsize * cols) * num : Nat) : Int) by push_cast; simp [Int.mul_assoc],
        ← Int.ofNat_fdiv]

/-- monotonicity, stated on the generated definition: more available memory never gives a smaller batch -/
theorem generated_monotone (avail avail' cores ranks itemsize cols num den : Nat) (mb : Option Int)
    (hden : 0 < den) (hmul : den ≤ num) (hw : 0 < cores * ranks) (hr : 0 < itemsize * cols) (h : avail ≤ avail') :
    ∃ p p' : Nat, set_memory (avail : Int) mb ⟨(num : Int), (den : Int)⟩ cores ranks itemsize cols = .ok (p : Int) ∧
      set_memory (avail' : Int) mb ⟨(num : Int), (den : Int)⟩ cores ranks itemsize cols = .ok (p' : Int) ∧ p ≤ p' := by
  refine ⟨_, _, generated_set_memory_eq_hand avail cores ranks itemsize cols num den mb hden hmul hw hr,
    generated_set_memory_eq_hand avail' cores ranks itemsize cols num den mb hden hmul hw hr, ?_⟩
  apply monotone
  cases mb with
  | none => simpa [granted] using h
  | some m => simp only [Option.map, granted]; omega

/-- a budget that admits one row gives a batch of at least one position, on the generated definition -/
theorem generated_admits_one_row (avail cores ranks itemsize cols num den : Nat) (mb : Option Int)
    (hden : 0 < den) (hmul : den ≤ num) (hw : 0 < cores * ranks) (hr : 0 < itemsize * cols)
    (h : cores * ranks * (itemsize * cols) * num ≤ granted avail (mb.map Int.natAbs) * den) :
    ∃ p : Nat, set_memory (avail : Int) mb ⟨(num : Int), (den : Int)⟩ cores ranks itemsize cols = .ok (p : Int) ∧ 1 ≤ p :=
  ⟨_, generated_set_memory_eq_hand avail cores ranks itemsize cols num den mb hden hmul hw hr,
    admits_one_row _ _ _ _ _ (Nat.mul_pos (Nat.mul_pos hw hr) (by omega)) h⟩

/-- a multiplier of absolute value below 1 is refused before anything is computed -/
theorem set_memory_small_multiplier_raises (avail cores ranks itemsize cols : Int) (mb : Option Int) (n : Int)
    (d : Nat) (h : n.natAbs < d) :
    set_memory avail mb ⟨n, (d : Int)⟩ cores ranks itemsize cols = .error .valueErr := by
  have hlt : ((n.natAbs : Nat) : Int) * 1 < 1 * (d : Int) := by omega
  simp only [set_memory, bind, Except.bind, pure, Except.pure, PyQ.abs, PyQ.lt, PyQ.ofInt, hlt, decide_true,
    not_true_eq_false, if_false, if_true, throw, throwThe, MonadExceptOf.throw]

/-- only the absolute values of the limit and of the multiplier matter -/
theorem set_memory_sign_irrelevant (avail cores ranks itemsize cols : Int) (mb : Int) (n d : Int) :
    set_memory avail (some (-mb)) ⟨-n, d⟩ cores ranks itemsize cols =
      set_memory avail (some mb) ⟨n, d⟩ cores ranks itemsize cols := by
  have h1 : PyQ.abs ⟨-n, d⟩ = PyQ.abs ⟨n, d⟩ := by simp only [PyQ.abs, Int.natAbs_neg]
  unfold set_memory
  simp only [h1, Int.natAbs_neg]

/-- no worker: an explicit ZeroDivisionError, never a silent batch size -/
theorem set_memory_zero_workers_raises (avail itemsize cols : Int) (cores ranks : Int) (mb : Option Int)
    (num den : Nat) (hmul : den ≤ num) (hw : cores * ranks = 0) :
    set_memory avail mb ⟨(num : Int), (den : Int)⟩ cores ranks itemsize cols = .error .zeroDiv := by
  have hlt : ¬ ((num : Int) * 1 < 1 * (den : Int)) := by omega
  cases mb <;>
  simp only [set_memory, bind, Except.bind, pure, Except.pure, PyQ.abs, PyQ.lt, PyQ.ofInt, PyQ.mul, PyQ.floor,
      pyTrueDiv, Int.natAbs_natCast, hlt, decide_false, hw, if_false, if_true, not_true_eq_false,
      Bool.false_eq_true]

/-- rows of zero bytes: an explicit ZeroDivisionError -/
theorem set_memory_zero_row_raises (avail itemsize cols : Int) (cores ranks : Int) (mb : Option Int)
    (num den : Nat) (hmul : den ≤ num) (hw : cores * ranks ≠ 0) (hr : itemsize * cols = 0) :
    set_memory avail mb ⟨(num : Int), (den : Int)⟩ cores ranks itemsize cols = .error .zeroDiv := by
  have hlt : ¬ ((num : Int) * 1 < 1 * (den : Int)) := by omega
  cases mb <;> by_cases hp : 0 < cores * ranks <;>
  simp only [set_memory, bind, Except.bind, pure, Except.pure, PyQ.abs, PyQ.lt, PyQ.ofInt, PyQ.mul, PyQ.floor,
      pyTrueDiv, Int.natAbs_natCast, hlt, decide_false, hw, hp, hr, Int.zero_mul, if_false, if_true, not_true_eq_false,
      Bool.false_eq_true]

example : set_memory (1024 * 1024) none ⟨3, 2⟩ 2 1 8 100 = .ok 436 := by rfl
example : set_memory (1024 * 1024 * 1024) (some (-1)) ⟨-3, 2⟩ 2 1 8 100 = .ok 436 := by rfl
example : set_memory 1000 none ⟨1, 2⟩ 2 1 8 100 = .error .valueErr := by rfl

/-- budget, stated on the generated definition itself -/
theorem generated_budget (avail cores ranks itemsize cols num den : Nat) (mb : Option Int)
    (hden : 0 < den) (hmul : den ≤ num) (hw : 0 < cores * ranks) (hr : 0 < itemsize * cols) :
    ∃ p : Nat, set_memory (avail : Int) mb ⟨(num : Int), (den : Int)⟩ cores ranks itemsize cols = .ok (p : Int) ∧
      p * (itemsize * cols) * num * (cores * ranks) ≤ granted avail (mb.map Int.natAbs) * den :=
  ⟨_, generated_set_memory_eq_hand avail cores ranks itemsize cols num den mb hden hmul hw hr,
    budget _ _ _ _ _⟩

/-- worker count chosen by the (generated) `__set_cores`: always within `[1, logical]`, for every kind of
    request (None, negative, zero, beyond the machine). -/
theorem cores_bounds (logical : Int) (cores : Option Int) (hl : 1 ≤ logical) :
    ∃ c, set_cores logical cores = .ok c ∧ 1 ≤ c ∧ c ≤ logical := by
  unfold set_cores
  simp only [bind, Except.bind, pure, Except.pure]
  cases cores <;> simp <;> grind

/-- a positive in-range request is honoured exactly -/
theorem cores_request_honoured (logical r : Int) (h1 : 1 ≤ r) (h2 : r ≤ logical) :
    set_cores logical (some r) = .ok r := by
  unfold set_cores
  simp only [bind, Except.bind, pure, Except.pure]
  simp; grind

/-- the (generated) core recommender never leaves `[1, logical]` -/
theorem recommend_bounds (L n : Int) (req : Option Int) (lengthy : Bool) (c : Int)
    (hL : 1 ≤ L) (h : recommend_cpu_cores L n req none lengthy = .ok c) : 1 ≤ c ∧ c ≤ L := by
  unfold recommend_cpu_cores pyTruncDiv at h
  simp only [bind, Except.bind, pure, Except.pure, throw, throwThe, MonadExceptOf.throw] at h
  cases req <;> cases lengthy <;> simp at h <;> grind

/-- and never exceeds a positive in-range request -/
theorem recommend_le_request (L n r : Int) (lengthy : Bool) (c : Int)
    (hr : 1 ≤ r) (hrL : r ≤ L) (h : recommend_cpu_cores L n (some r) none lengthy = .ok c) : c ≤ r := by
  unfold recommend_cpu_cores pyTruncDiv at h
  simp only [bind, Except.bind, pure, Except.pure, throw, throwThe, MonadExceptOf.throw] at h
  cases lengthy <;> simp at h <;> grind

/-- it returns a value for every positive job count and every non-zero request -/
theorem recommend_total (L n : Int) (req : Option Int) (lengthy : Bool) (hL : 1 ≤ L) (hn : 1 ≤ n)
    (hr : ∀ r, req = some r → r ≠ 0) : ∃ c, recommend_cpu_cores L n req none lengthy = .ok c := by
  cases h : recommend_cpu_cores L n req none lengthy with
  | ok c => exact ⟨c, rfl⟩
  | error e =>
    exfalso
    unfold recommend_cpu_cores pyTruncDiv at h
    simp only [bind, Except.bind, pure, Except.pure, throw, throwThe, MonadExceptOf.throw] at h
    cases req with
    | none => cases lengthy <;> simp at h <;> grind
    | some r =>
      have := hr r rfl
      cases lengthy <;> simp at h <;> grind

/-- `requested_cores = 0` is a `ZeroDivisionError` (Lean's total division must not hide it) -/
theorem recommend_zero_request_raises (L n : Int) (lengthy : Bool) (hn : 1 ≤ n) (hL : 1 ≤ L) :
    recommend_cpu_cores L n (some 0) none lengthy = .error .zeroDiv := by
  unfold recommend_cpu_cores pyTruncDiv
  simp only [bind, Except.bind, pure, Except.pure, throw, throwThe, MonadExceptOf.throw]
  cases lengthy <;> simp <;> grind

/-- zero jobs (an empty batch) is refused with `ValueError` whatever the request -/
theorem recommend_zero_jobs_raises (L : Int) (req : Option Int) (lengthy : Bool) :
    recommend_cpu_cores L 0 req none lengthy = .error .valueErr := by
  unfold recommend_cpu_cores pyTruncDiv
  simp only [bind, Except.bind, pure, Except.pure, throw, throwThe, MonadExceptOf.throw]
  cases req <;> simp <;> grind

/-- zero budget: the very first batch is empty, the default unit computation raises `ValueError`,
    nothing is marked — compute() stops with an error instead of looping. -/
theorem zero_budget_errors (logical cores : Int) (fuel : Nat) (start stop e : Int) (h : start < stop) :
    computeLoop logical cores (fuel + 1) start stop 0 e [] = .error .valueErr := by
  unfold computeLoop read_window
  simp only [bind, Except.bind, pure, Except.pure, h, if_true]
  have hmin : min stop (start + 0) = start := by omega
  simp only [hmin, Int.sub_self, recommend_zero_jobs_raises]
  simp

/-- a budget of at least one row: the loop terminates (fuel `stop - start + 1` suffices), never errors,
    and the marked windows tile `[start, stop)` in order. -/
theorem terminates_all_done (logical cores : Int) (hl : 1 ≤ logical) (hc : 1 ≤ cores)
    (batch : Nat) (hb : 0 < batch) (start stop : Nat) (e : Int) (marks : List (Int × Int)) (fuel : Nat)
    (hf : stop - start < fuel) :
    computeLoop logical cores fuel (start : Int) (stop : Int) (batch : Int) e marks =
      .ok (some (marks ++ (windows batch hb start stop).map (fun w => ((w.1 : Int), (w.2 : Int))))) := by
  induction fuel generalizing start e marks with
  | zero => omega
  | succ n ih =>
    unfold computeLoop
    rw [show read_window (start : Int) (stop : Int) (batch : Int) e = read_window (start : Int) (stop : Int) (batch : Int) e from rfl]
    unfold read_window windows
    simp only [bind, Except.bind, pure, Except.pure]
    by_cases h : start < stop
    · have h' : (start : Int) < (stop : Int) := by omega
      simp only [h', h, if_true, dite_true]
      have hmin : min (stop : Int) ((start : Int) + (batch : Int)) = ((min stop (start + batch) : Nat) : Int) := by omega
      rw [hmin]
      have hjobs : (1 : Int) ≤ ((min stop (start + batch) : Nat) : Int) - (start : Int) := by omega
      obtain ⟨c, hcok⟩ := recommend_total logical _ (some cores) false hl hjobs (by intro r hr; injection hr with hr; omega)
      rw [hcok]
      simp only [show ((1 : Int) = 0) = False from by simp, if_false]
      rw [ih (min stop (start + batch)) _ _ (by omega)]
      simp [List.append_assoc]
    · have h' : ¬ (start : Int) < (stop : Int) := by omega
      simp [h', h]

example : computeLoop 8 2 10 0 5 2 0 [] = .ok (some [(0, 2), (2, 4), (4, 5)]) := by rfl
example : maxPos (1024 * 1024) 2 (8 * 100) 3 2 = 436 := by decide

/-- End to end, on the GENERATED kernels only: whatever cores are requested on a machine with `logical ≥ 1` cores,
    the constructor's sizing (`__set_cores` then `__set_memory`, one rank on the socket) followed by the compute loop
    over `n` pending positions
    * finishes with the windows tiling `[0, n)` when the granted memory admits one row per worker, and
    * stops with `ValueError`, having marked nothing, when it admits none (and something is pending). -/
theorem sizing_then_compute (logical : Int) (req : Option Int) (hl : 1 ≤ logical)
    (avail itemsize cols num den n : Nat) (mb : Option Int)
    (hden : 0 < den) (hmul : den ≤ num) (hr : 0 < itemsize * cols) :
    ∃ c : Nat, set_cores logical req = .ok (c : Int) ∧ 1 ≤ c ∧ (c : Int) ≤ logical ∧
      ∃ p : Nat, set_memory (avail : Int) mb ⟨(num : Int), (den : Int)⟩ (c : Int) ((1 : Nat) : Int) itemsize cols = .ok (p : Int) ∧
        ((c * 1 * (itemsize * cols) * num ≤ granted avail (mb.map Int.natAbs) * den) →
            ∃ hp : 0 < p, computeLoop logical (c : Int) (n + 1) ((0 : Nat) : Int) (n : Int) (p : Int) 0 [] =
              .ok (some ((windows p hp 0 n).map (fun w => ((w.1 : Int), (w.2 : Int)))))) ∧
        ((granted avail (mb.map Int.natAbs) * den < c * 1 * (itemsize * cols) * num) → 0 < n →
            p = 0 ∧ computeLoop logical (c : Int) (n + 1) ((0 : Nat) : Int) (n : Int) (p : Int) 0 [] = .error .valueErr) := by
  obtain ⟨ci, hci, h1, h2⟩ := cores_bounds logical req hl
  obtain ⟨c, rfl⟩ : ∃ c : Nat, ci = (c : Int) := ⟨ci.toNat, by omega⟩
  have hc1 : 1 ≤ c := by omega
  have hw : 0 < c * 1 := by omega
  refine ⟨c, hci, hc1, h2, _, generated_set_memory_eq_hand avail c 1 itemsize cols num den mb hden hmul hw hr, ?_, ?_⟩
  · intro hadm
    have hp := admits_one_row (granted avail (mb.map Int.natAbs)) (c * 1) (itemsize * cols) num den
      (Nat.mul_pos (Nat.mul_pos hw hr) (by omega)) hadm
    refine ⟨hp, ?_⟩
    have := terminates_all_done logical (c : Int) hl (by omega) _ hp 0 n 0 [] (n + 1) (by omega)
    simpa using this
  · intro hlt hn
    have hz : maxPos (granted avail (mb.map Int.natAbs)) (c * 1) (itemsize * cols) num den = 0 := by
      unfold maxPos
      exact Nat.div_eq_of_lt hlt
    refine ⟨hz, ?_⟩
    rw [hz]
    exact zero_budget_errors logical (c : Int) n ((0 : Nat) : Int) (n : Int) 0 (by omega)

end Usid.C15
