import Usid.Model.Attrs
/-! C16 — stored parameters match a query exactly when every queried value is equal. -/
namespace Usid.C16
open Usid Usid.Attrs

/-- well-formed value: denominators positive -/
def WfScalar : Scalar → Prop
  | .num _ d => 0 < d
  | _ => True

def WfVal : Val → Prop
  | .none => True
  | .scalar s => WfScalar s
  | .list l => ∀ s ∈ l, WfScalar s

theorem scalarEq_refl (s : Scalar) : scalarEq s s = true := by
  cases s <;> simp [scalarEq, numOf]

theorem isClose_refl (a : Int × Nat) : isClose a a = true := by
  unfold isClose
  have h1 : a.1 * (a.2 : Int) - a.1 * a.2 = 0 := by omega
  simp only [h1, Int.natAbs_zero, decide_eq_true_eq]
  have : (0 : Int) ≤ (a.2 : Int) * ((a.2 : Int) + 1000 * (a.1.natAbs : Int)) :=
    Int.mul_nonneg (by omega) (by omega)
  simpa using this

theorem zip_self_all {α : Type} (f : α → α → Bool) (l : List α) (h : ∀ x ∈ l, f x x = true) :
    (l.zip l).all (fun p => f p.1 p.2) = true := by
  induction l with
  | nil => rfl
  | cons x xs ih =>
    simp only [List.zip_cons_cons, List.all_cons, Bool.and_eq_true]
    exact ⟨h x List.mem_cons_self, ih (fun y hy => h y (List.mem_cons_of_mem _ hy))⟩

theorem arraysMatch_refl (l : List Scalar) : arraysMatch l l = true := by
  unfold arraysMatch
  simp only
  split
  · exact zip_self_all _ l (fun x _ => scalarEq_refl x)
  · split
    · rename_i _ hnum
      apply zip_self_all closeS
      intro x hx
      have hx' : isNum x = true := List.all_eq_true.mp hnum x (List.mem_append_left _ hx)
      unfold closeS
      cases hv : numOf x with
      | some v => simp [isClose_refl]
      | none =>
        unfold isNum at hx'
        simp [hv] at hx'
        simp [hx']
    · exact zip_self_all _ l (fun x _ => scalarEq_refl x)

/-- the entry written for `v` matches the query `v` itself -/
theorem matchEntry_self (obj : Obj) (k : String) (v : Val) (s : Stored) (hs : storeVal v = some s)
    (hl : obj.lookup k = some s) : matchEntry obj k v = some (true, false) := by
  cases v with
  | none => simp [storeVal] at hs
  | scalar x =>
    simp only [storeVal, Option.some.injEq] at hs; subst hs
    simp [matchEntry, hl, scalarEq_refl]
  | list l =>
    simp only [storeVal, Option.some.injEq] at hs; subst hs
    simp [matchEntry, hl, arraysMatch_refl]

theorem lookup_store (d : Dict) (hnd : (d.map (·.1)).Nodup) (k : String) (v : Val) (s : Stored)
    (hm : (k, v) ∈ d) (hs : storeVal v = some s) : (store d).lookup k = some s := by
  induction d with
  | nil => simp at hm
  | cons kv rest ih =>
    simp only [List.map_cons, List.nodup_cons] at hnd
    rcases List.mem_cons.mp hm with h | h
    · subst h
      simp [store, List.filterMap_cons, hs, List.lookup]
    · have hne : kv.1 ≠ k := by
        intro e; apply hnd.1; rw [e]; exact List.mem_map.mpr ⟨(k, v), h, rfl⟩
      have := ih hnd.2 h
      unfold store at this ⊢
      rw [List.filterMap_cons]
      cases hkv : storeVal kv.2 with
      | none => simpa [hkv] using this
      | some s' =>
        simp only [hkv, Option.map_some, List.lookup]
        have : (k == kv.1) = false := by simpa using fun e => hne e.symm
        rw [this]; assumption

/-- Comparing an object's stored attributes with the very dictionary that was written reports a match
    (any supported values, `None` entries included; keys distinct as in a Python dict). -/
theorem reflexive (d : Dict) (hnd : (d.map (·.1)).Nodup) : matchAll (store d) d = true := by
  have key : ∀ q : Dict, (∀ kv ∈ q, kv ∈ d) → matchAll (store d) q = true := by
    intro q
    induction q with
    | nil => intro _; rfl
    | cons kv rest ih =>
      intro hsub
      have hrest := ih (fun x hx => hsub x (List.mem_cons_of_mem _ hx))
      obtain ⟨k, v⟩ := kv
      unfold matchAll
      cases hv : storeVal v with
      | none =>
        have : v = .none := by cases v <;> simp [storeVal] at hv ⊢
        subst this
        simp [matchEntry, hrest]
      | some s =>
        have hl := lookup_store d hnd k v s (hsub (k, v) List.mem_cons_self) hv
        simp [matchEntry_self _ k v s hv hl, hrest]
  exact key d (fun _ h => h)

/-- Entries whose value is `None` are ignored, wherever they sit in the query. -/
theorem none_ignored (obj : Obj) (q1 q2 : Dict) (k : String) :
    matchAll obj (q1 ++ (k, Val.none) :: q2) = matchAll obj (q1 ++ q2) := by
  induction q1 with
  | nil => simp [matchAll, matchEntry]
  | cons kv rest ih =>
    obtain ⟨k', v'⟩ := kv
    simp only [List.cons_append, matchAll, ih]

theorem break_false (obj : Obj) (k : String) (v : Val) (r : Bool)
    (h : matchEntry obj k v = some (r, true)) : r = false := by
  unfold matchEntry at h
  cases v with
  | none => simp at h
  | scalar x =>
    cases hl : obj.lookup k with
    | none => simp [hl] at h; exact h
    | some st =>
      cases st with
      | scalar o => simp [hl] at h
      | array o => simp [hl] at h; exact h
  | list l =>
    cases hl : obj.lookup k with
    | none => simp [hl] at h; exact h
    | some st =>
      cases st with
      | scalar o => simp [hl] at h; exact h
      | array o => simp [hl] at h; split at h <;> simp at h

/-- one failing entry makes the whole comparison fail (whether or not the loop breaks there) -/
theorem entry_false (obj : Obj) (q : Dict) (k : String) (v : Val) (b : Bool) (hm : (k, v) ∈ q)
    (he : matchEntry obj k v = some (false, b)) : matchAll obj q = false := by
  induction q with
  | nil => simp at hm
  | cons kv rest ih =>
    obtain ⟨k', v'⟩ := kv
    unfold matchAll
    rcases List.mem_cons.mp hm with h | h
    · injection h with h1 h2; subst h1; subst h2
      simp only [he]
      cases b <;> simp
    · have hr := ih h
      cases hme : matchEntry obj k' v' with
      | none => simpa using hr
      | some rb =>
        obtain ⟨r, brk⟩ := rb
        cases brk
        · simp [hr]
        · simp only [if_true]
          exact break_false obj k' v' r hme

/-- Querying an entry that is not stored reports a mismatch. -/
theorem absent_key_mismatch (obj : Obj) (q : Dict) (k : String) (v : Val) (hv : v ≠ .none)
    (hm : (k, v) ∈ q) (ha : obj.lookup k = none) : matchAll obj q = false := by
  apply entry_false obj q k v true hm
  cases v with
  | none => exact absurd rfl hv
  | scalar s => simp [matchEntry, ha]
  | list l => simp [matchEntry, ha]

/-- Changing the value of a scalar entry (so that Python's `==` is false) reports a mismatch. -/
theorem scalar_sensitive (obj : Obj) (q : Dict) (k : String) (old new : Scalar)
    (hm : (k, Val.scalar new) ∈ q) (hl : obj.lookup k = some (.scalar old))
    (hne : scalarEq new old = false) : matchAll obj q = false :=
  entry_false obj q k _ false hm (by simp [matchEntry, hl, hne])

/-- Changing the length of a list entry reports a mismatch. -/
theorem length_sensitive (obj : Obj) (q : Dict) (k : String) (old new : List Scalar)
    (hm : (k, Val.list new) ∈ q) (hl : obj.lookup k = some (.array old))
    (hne : old.length ≠ new.length) : matchAll obj q = false :=
  entry_false obj q k _ false hm (by simp [matchEntry, hl, hne])

theorem zip_all_false {α : Type} (f : α → α → Bool) : ∀ (a b : List α) (i : Nat) (x y : α),
    a[i]? = some x → b[i]? = some y → f x y = false → (a.zip b).all (fun p => f p.1 p.2) = false
  | [], _, _, _, _, h, _, _ => by simp at h
  | _ :: _, [], _, _, _, _, h, _ => by simp at h
  | a0 :: as, b0 :: bs, 0, x, y, h1, h2, hf => by
    simp at h1 h2; subst h1; subst h2; simp [hf]
  | a0 :: as, b0 :: bs, i + 1, x, y, h1, h2, hf => by
    simp at h1 h2
    simp [zip_all_false f as bs i x y h1 h2 hf]

/-- Changing one element of a list entry reports a mismatch — for string lists and whole-number lists
    whenever the elements differ, for float lists whenever the change exceeds `np.allclose`'s tolerance
    (`|old − new| > 1e-8 + 1e-5·|new|`).  The full statement (every change) is false: see the
    counterexample below. -/
theorem array_sensitive_partial (obj : Obj) (q : Dict) (k : String) (old new : List Scalar) (i : Nat)
    (x y : Scalar) (hm : (k, Val.list new) ∈ q) (hl : obj.lookup k = some (.array old))
    (hlen : old.length = new.length) (hx : old[i]? = some x) (hy : new[i]? = some y)
    (hdiff : scalarEq x y = false)
    (htol : ∀ a b, numOf x = some a → numOf y = some b → isClose a b = false) :
    matchAll obj q = false := by
  apply entry_false obj q k _ false hm
  simp only [matchEntry, hl, hlen, bne_self_eq_false, Bool.false_eq_true, if_false]
  congr 1
  simp only [Prod.mk.injEq, and_true]
  unfold arraysMatch
  simp only
  split
  · exact zip_all_false _ old new i x y hx hy hdiff
  · split
    · apply zip_all_false closeS old new i x y hx hy
      unfold closeS
      cases ha : numOf x with
      | none =>
        -- x is not a number: the elements are equal only when both are NaN, which `hdiff` excludes
        by_cases hxn : x = .nan
        · by_cases hyn : y = .nan
          · subst hxn; subst hyn; simp [scalarEq, numOf] at hdiff
          · simp [hyn]
        · simp [hxn]
      | some a =>
        cases hb : numOf y with
        | none =>
          have : x ≠ .nan := by intro e; rw [e] at ha; simp [numOf] at ha
          simp [this]
        | some b => simpa using htol a b ha hb
    · exact zip_all_false _ old new i x y hx hy hdiff

/-- A sequence never matches a stored scalar and a scalar (a string included) never matches a stored array:
    a change of "length" between one value and a list of values is always reported, and nothing raises. -/
theorem sequence_scalar_mismatch (obj : Obj) (q : Dict) (k : String) :
    (∀ (old : Scalar) (new : List Scalar), (k, Val.list new) ∈ q → obj.lookup k = some (.scalar old) → matchAll obj q = false) ∧
    (∀ (old : List Scalar) (new : Scalar), (k, Val.scalar new) ∈ q → obj.lookup k = some (.array old) → matchAll obj q = false) := by
  constructor
  · intro old new hm hl
    exact entry_false obj q k _ true hm (by simp [matchEntry, hl])
  · intro old new hm hl
    exact entry_false obj q k _ true hm (by simp [matchEntry, hl])

/-- NaN matches itself, as a scalar and inside an array. -/
example : matchAll (store [("a", .scalar .nan), ("b", .list [.num 3 2, .nan])])
    [("a", .scalar .nan), ("b", .list [.num 3 2, .nan])] = true := by decide

/-- FULL sensitivity is false for float arrays: a change inside the tolerance is reported as a match. -/
theorem array_sensitive_counterexample :
    matchAll (store [("p", .list [.num 100000 1])]) [("p", .list [.num 100001 1])] = true := by decide

/-- ... while the same change in a whole-number array is detected. -/
example : matchAll (store [("p", .list [.int 100000])]) [("p", .list [.int 100001])] = false := by decide

example : matchAll (store [("a", .scalar (.int 3)), ("b", .none), ("c", .list [.str "x", .str "y"])])
    [("a", .scalar (.int 3)), ("b", .none), ("c", .list [.str "x", .str "y"])] = true := by decide

end Usid.C16
