import Usid.Model.Csv
/-! C17 — CSV export reproduces every element with its position and spectroscopic values. -/
namespace Usid.C17
open Usid Usid.Csv

theorem splitOnC_ne_nil (sep : Char) : ∀ s : Str, splitOnC sep s ≠ []
  | [] => by simp [splitOnC]
  | c :: cs => by
    unfold splitOnC
    split
    · simp
    · cases h : splitOnC sep cs <;> simp

theorem split_no_sep (sep : Char) : ∀ (s : Str), sep ∉ s → splitOnC sep s = [s]
  | [], _ => rfl
  | c :: cs, h => by
    have hc : c ≠ sep := fun e => h (by rw [e]; exact List.mem_cons_self)
    have ih := split_no_sep sep cs (fun hm => h (List.mem_cons_of_mem _ hm))
    simp [splitOnC, hc, ih]

theorem split_append_sep (sep : Char) : ∀ (a b : Str), sep ∉ a →
    splitOnC sep (a ++ sep :: b) = a :: splitOnC sep b
  | [], b, _ => by simp [splitOnC]
  | c :: cs, b, h => by
    have hc : c ≠ sep := fun e => h (by rw [e]; exact List.mem_cons_self)
    have ih := split_append_sep sep cs b (fun hm => h (List.mem_cons_of_mem _ hm))
    simp [splitOnC, hc, ih]

/-- Splitting a joined line gives back its cells, provided no cell contains the separator. -/
theorem split_join (sep : Char) : ∀ (cells : List Str), cells ≠ [] → (∀ c ∈ cells, sep ∉ c) →
    splitOnC sep (joinWith sep cells) = cells
  | [], h, _ => absurd rfl h
  | [x], _, hs => by simp [joinWith, split_no_sep sep x (hs x (by simp))]
  | x :: y :: rest, _, hs => by
    simp only [joinWith]
    rw [split_append_sep sep x _ (hs x (by simp)), split_join sep (y :: rest) (by simp)
      (fun c hc => hs c (List.mem_cons_of_mem _ hc))]

theorem join_append (sep : Char) : ∀ (a b : List Str), a ≠ [] → b ≠ [] →
    joinWith sep (a ++ b) = joinWith sep a ++ sep :: joinWith sep b
  | [], _, h, _ => absurd rfl h
  | [x], b, _, hb => by
    cases b with
    | nil => exact absurd rfl hb
    | cons y ys => simp [joinWith]
  | x :: y :: rest, b, _, hb => by
    simp only [List.cons_append, joinWith]
    rw [show y :: (rest ++ b) = (y :: rest) ++ b from rfl, join_append sep (y :: rest) b (by simp) hb]
    simp [List.append_assoc]

/-- a header line of the left block: `P` empty cells joined, then the descriptor -/
theorem join_empties (d : Str) : ∀ (k : Nat), 0 < k →
    joinWith ',' (List.replicate k ([] : Str)) ++ d = joinWith ',' (List.replicate (k - 1) [] ++ [d])
  | 1, _ => by simp [joinWith]
  | k + 2, _ => by
    have ih := join_empties d (k + 1) (by omega)
    simp only [Nat.add_sub_cancel] at ih
    show joinWith ',' ([] :: [] :: List.replicate k []) ++ d = _
    simp only [joinWith, List.nil_append, List.cons_append]
    have : List.replicate (k + 2 - 1) ([] : Str) ++ [d] = [] :: (List.replicate k [] ++ [d]) := by
      simp [List.replicate_succ]
    rw [this]
    have ih' : joinWith ',' ([] :: List.replicate k ([] : Str)) ++ d = joinWith ',' (List.replicate k [] ++ [d]) := by
      simpa [List.replicate_succ] using ih
    cases hk : List.replicate k ([] : Str) ++ [d] with
    | nil => simp at hk
    | cons z zs =>
      simp only [joinWith, List.nil_append]
      rw [← hk, ← ih']

/-- well-formed table: P, Q, M ≥ 1, consistent row lengths, no comma inside any cell -/
structure Wf (t : Table) : Prop where
  pPos : t.posDesc ≠ []
  qPos : t.specDesc ≠ []
  specRows : t.specVals.length = t.specDesc.length
  posRows : t.posVals.length = t.data.length
  mPos : ∀ row ∈ t.specVals, row ≠ []
  posCols : ∀ row ∈ t.posVals, row.length = t.posDesc.length
  dataCols : ∀ row ∈ t.data, row ≠ []
  noComma : (∀ c ∈ t.specDesc, ',' ∉ c) ∧ (∀ c ∈ t.posDesc, ',' ∉ c) ∧ (∀ row ∈ t.specVals, ∀ c ∈ row, ',' ∉ c) ∧
    (∀ row ∈ t.posVals, ∀ c ∈ row, ',' ∉ c) ∧ (∀ row ∈ t.data, ∀ c ∈ row, ',' ∉ c)

/-- the table a reader must recover: per spectroscopic dimension `P-1` empty cells, its descriptor, its value
    for every column; then the position descriptors followed by dashes; then per position its value along
    every position dimension followed by the data of that row -/
def expectedTable (t : Table) : List (List Str) :=
  (List.zipWith (fun d vals => List.replicate (t.posDesc.length - 1) [] ++ [d] ++ vals) t.specDesc t.specVals) ++
  [t.posDesc ++ (t.specVals.headD []).map (fun _ => dash)] ++
  List.zipWith (· ++ ·) t.posVals t.data

theorem dash_no_comma : ',' ∉ dash := by decide

theorem zipWith_congr_mem {α β γ : Type} (f g : α → β → γ) : ∀ (A : List α) (B : List β),
    (∀ a ∈ A, ∀ b ∈ B, f a b = g a b) → List.zipWith f A B = List.zipWith g A B
  | [], _, _ => by simp
  | _ :: _, [], _ => by simp
  | a :: as, b :: bs, h => by
    simp only [List.zipWith_cons_cons]
    rw [h a List.mem_cons_self b List.mem_cons_self,
      zipWith_congr_mem f g as bs (fun x hx y hy => h x (List.mem_cons_of_mem _ hx) y (List.mem_cons_of_mem _ hy))]

/-- one output line = left cells joined, a comma, right cells joined; splitting it gives the cells -/
theorem line_cells (L R : List Str) (hL : L ≠ []) (hR : R ≠ []) (hc : ∀ c ∈ L ++ R, ',' ∉ c) :
    splitOnC ',' ((joinWith ',' L ++ [',']) ++ joinWith ',' R) = L ++ R := by
  have : (joinWith ',' L ++ [',']) ++ joinWith ',' R = joinWith ',' (L ++ R) := by
    rw [join_append ',' L R hL hR]; simp
  rw [this, split_join ',' (L ++ R) (by simp [hL]) hc]

/-- Parsing the exported lines back as a comma-separated table gives exactly `expectedTable`: every element
    can be read off together with all of its coordinates. -/
theorem layout (t : Table) (h : Wf t) : parseCsv (csvLines t) = expectedTable t := by
  obtain ⟨hp, hq, hsr, hpr, hm, hpc, hdc, hc1, hc2, hc3, hc4, hc5⟩ := h
  have hP : 0 < t.posDesc.length := List.length_pos_iff.mpr hp
  unfold csvLines leftLines rightLines expectedTable parseCsv
  have l1 : (t.specDesc.map (fun d => joinWith ',' (t.posDesc.map (fun _ => ([] : Str))) ++ d ++ [','])).length =
      (t.specVals.map (joinWith ',')).length := by simp [hsr]
  rw [List.append_assoc, List.append_assoc, List.zipWith_append l1, List.zipWith_append (by simp)]
  simp only [List.map_append, List.append_assoc]
  -- three blocks: spectroscopic header rows, the position-descriptor line, one row per position
  have b1 : List.map (splitOnC ',') (List.zipWith (fun x1 x2 => x1 ++ x2)
      (t.specDesc.map (fun d => joinWith ',' (t.posDesc.map (fun _ => ([] : Str))) ++ d ++ [',']))
      (t.specVals.map (joinWith ','))) =
      List.zipWith (fun d vals => List.replicate (t.posDesc.length - 1) [] ++ [d] ++ vals) t.specDesc t.specVals := by
    rw [List.zipWith_map_left, List.zipWith_map_right, List.map_zipWith]
    apply zipWith_congr_mem
    intro d hd vals hv
    have hrep : t.posDesc.map (fun _ => ([] : Str)) = List.replicate t.posDesc.length [] := by
      simp [List.map_const']
    rw [hrep, join_empties d t.posDesc.length hP]
    apply line_cells
    · simp
    · exact hm vals hv
    · intro c hc
      simp only [List.mem_append, List.mem_replicate, List.mem_singleton] at hc
      rcases hc with (⟨_, rfl⟩ | rfl) | hc
      · simp
      · exact hc1 c hd
      · exact hc3 vals hv c hc
  have hne : (t.specVals.headD []).map (fun _ => dash) ≠ [] := by
    cases hs : t.specVals with
    | nil => rw [hs] at hsr; simp at hsr; exact absurd hsr.symm (by simpa using hq)
    | cons r rs =>
      have := hm r (by rw [hs]; exact List.mem_cons_self)
      simpa using this
  have b2 : List.map (splitOnC ',') (List.zipWith (fun x1 x2 => x1 ++ x2) [joinWith ',' t.posDesc ++ [',']]
      [joinWith ',' ((t.specVals.headD []).map (fun _ => dash))]) =
      [t.posDesc ++ (t.specVals.headD []).map (fun _ => dash)] := by
    simp only [List.zipWith_cons_cons, List.zipWith_nil_left, List.map_cons, List.map_nil]
    congr 1
    apply line_cells _ _ hp hne
    intro c hc
    simp only [List.mem_append, List.mem_map] at hc
    rcases hc with hc | ⟨_, _, rfl⟩
    · exact hc2 c hc
    · exact dash_no_comma
  have b3 : List.map (splitOnC ',') (List.zipWith (fun x1 x2 => x1 ++ x2)
      (t.posVals.map (fun row => joinWith ',' row ++ [','])) (t.data.map (joinWith ','))) =
      List.zipWith (· ++ ·) t.posVals t.data := by
    rw [List.zipWith_map_left, List.zipWith_map_right, List.map_zipWith]
    apply zipWith_congr_mem
    intro pv hpv dv hdv
    apply line_cells
    · intro h0; have := hpc pv hpv; rw [h0] at this; simp at this; omega
    · exact hdc dv hdv
    · intro c hc
      rcases List.mem_append.mp hc with hc | hc
      · exact hc4 pv hpv c hc
      · exact hc5 dv hdv c hc
  simp only [List.append_assoc] at b1
  rw [b1, b2, b3]

/-! ### files -/

/-- An existing output file is never overwritten unless forced: the call is refused and nothing changes. -/
theorem no_overwrite (fs : FS) (output tmp : String) (size : Nat) (h : output ∈ fs.files) (hs : size ≤ limitBytes) :
    toCsvFS fs output tmp size false = (fs, .refused) := by
  unfold toCsvFS
  have : ¬ size > limitBytes := by omega
  simp [this, h]

/-- Oversized datasets are skipped unless forced: nothing is written, nothing changes. -/
theorem oversize_skipped (fs : FS) (output tmp : String) (size : Nat) (hs : limitBytes < size) :
    toCsvFS fs output tmp size false = (fs, .skipped) := by
  unfold toCsvFS
  simp [hs]

/-- After a normal return the output file exists, the scratch file does not, and every other file is as
    before — provided the scratch file is a fresh name different from the output (which is what creating it
    with `tempfile` guarantees; with a FIXED scratch name the statement is false, see below). -/
theorem no_temp_left (fs : FS) (output tmp : String) (size : Nat) (force : Bool) (p : String)
    (hfresh : tmp ∉ fs.files) (hne : tmp ≠ output)
    (h : (toCsvFS fs output tmp size force).2 = .wrote p) :
    p = output ∧ output ∈ (toCsvFS fs output tmp size force).1.files ∧
    tmp ∉ (toCsvFS fs output tmp size force).1.files ∧
    ∀ q, q ≠ output → (q ∈ (toCsvFS fs output tmp size force).1.files ↔ q ∈ fs.files) := by
  unfold toCsvFS at h ⊢
  split at h
  · cases h
  · split at h
    · cases h
    · injection h with h
      rename_i c1 c2
      simp only [c1, c2, Bool.false_eq_true, if_false]
      refine ⟨h.symm, ?_, ?_, ?_⟩
      · simp [Ne.symm hne]
      · simp
      · intro q hq
        simp only [List.mem_filter, List.mem_append, List.mem_cons, List.mem_nil_iff, or_false, bne_iff_ne, ne_eq]
        constructor
        · rintro ⟨(⟨hm, _⟩ | rfl | rfl), hqt⟩
          · exact hm
          · exact absurd rfl hqt
          · exact absurd rfl hq
        · intro hm
          exact ⟨Or.inl ⟨hm, hq⟩, fun e => hfresh (e ▸ hm)⟩

/-- With a FIXED scratch name equal to the requested output path (the code before the repair used
    `temp.csv` in the current directory) the call "succeeds" but the returned path names no file. -/
theorem fixed_scratch_counterexample :
    let r := toCsvFS { files := [] } "temp.csv" "temp.csv" 1 false
    r.2 = .wrote "temp.csv" ∧ "temp.csv" ∉ r.1.files := by decide

example : parseCsv (csvLines ⟨["B (V)".toList], ["X (m)".toList, "Y (m)".toList], [["1".toList, "2".toList]],
    [["0".toList, "5".toList]], [["7".toList, "8".toList]]⟩) =
    [[[], "B (V)".toList, "1".toList, "2".toList], ["X (m)".toList, "Y (m)".toList, dash, dash],
     ["0".toList, "5".toList, "7".toList, "8".toList]] := by decide

end Usid.C17
