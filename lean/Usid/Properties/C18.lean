import Usid.Model.Empty
/-! C18 — an empty dataset made from a Main dataset is a compatible Main sibling. -/
namespace Usid.C18
open Usid Usid.Empty

theorem mem_union_left {a b : List String} {x : String} (h : x ∈ a) : x ∈ union a b := by
  simp [union, h]

theorem mem_union_right {a b : List String} {x : String} (h : x ∈ b) : x ∈ union a b := by
  by_cases ha : x ∈ a
  · exact mem_union_left ha
  · simp only [union, List.mem_append, List.mem_eraseDups, List.mem_filter]
    exact Or.inr ⟨h, by simpa using ha⟩

/-- Whatever was under the requested name, a successful call returns a dataset with the source's shape,
    the requested element type, the source's descriptive attributes plus the new ones, linked to the
    source's ancillaries (same file) or to copies of them (other file). -/
theorem shape_type_attrs (g : Group) (r : Req) (g' : Group) (d : Dset) (h : createEmpty g r = .ok (g', d)) :
    d.shape = r.src.shape ∧ d.dtype = r.dtype ∧ (∀ a ∈ r.src.attrs, a ∈ d.attrs) ∧ (∀ a ∈ r.newAttrs, a ∈ d.attrs) ∧
    d.links = (if r.sameFile then .toSource else .toCopies) := by
  unfold createEmpty at h
  cases hl : g.lookup r.name with
  | none =>
    simp only [hl] at h
    injection h with h; injection h with _ h; subst h
    refine ⟨rfl, rfl, ?_, ?_, rfl⟩
    · intro a ha; exact mem_union_left ha
    · intro a ha; exact mem_union_right ha
  | some m =>
    cases m with
    | other => simp [hl] at h
    | dataset e =>
      simp only [hl] at h
      split at h
      · injection h with h; injection h with _ h; subst h
        refine ⟨rfl, rfl, ?_, ?_, rfl⟩
        · intro a ha; exact mem_union_left ha
        · intro a ha; exact mem_union_right ha
      · rename_i hc
        injection h with h; injection h with _ h; subst h
        simp only [Bool.or_eq_true, bne_iff_ne, ne_eq, not_or, Decidable.not_not] at hc
        refine ⟨hc.1, hc.2, ?_, ?_, rfl⟩
        · intro a ha; exact mem_union_right (List.mem_append_left _ ha)
        · intro a ha; exact mem_union_right (List.mem_append_right _ ha)

/-- A newly created (or recreated) dataset has the source's chunking and compression and zero contents. -/
theorem fresh_layout (g : Group) (r : Req) (g' : Group) (d : Dset) (h : createEmpty g r = .ok (g', d))
    (hnew : ∀ e, g.lookup r.name = some (.dataset e) → (e.shape ≠ r.src.shape ∨ e.dtype ≠ r.dtype)) :
    d.chunks = r.src.chunks ∧ d.compression = r.src.compression ∧ d.zero = true := by
  unfold createEmpty at h
  cases hl : g.lookup r.name with
  | none =>
    simp only [hl] at h
    injection h with h; injection h with _ h; subst h; exact ⟨rfl, rfl, rfl⟩
  | some m =>
    cases m with
    | other => simp [hl] at h
    | dataset e =>
      simp only [hl] at h
      have hc := hnew e hl
      have : (e.shape != r.src.shape || e.dtype != r.dtype) = true := by
        rcases hc with hc | hc <;> simp [hc]
      simp only [this, if_true] at h
      injection h with h; injection h with _ h; subst h; exact ⟨rfl, rfl, rfl⟩

/-- Asking again for an existing compatible dataset returns it WITHOUT erasing its contents (and without
    changing its layout): calling twice is the same as calling once, whatever was written in between. -/
theorem idempotent_keeps_contents (g : Group) (r : Req) (e : Dset)
    (hl : g.lookup r.name = some (.dataset e)) (hs : e.shape = r.src.shape) (ht : e.dtype = r.dtype) :
    ∃ g' d, createEmpty g r = .ok (g', d) ∧ d.zero = e.zero ∧ d.chunks = e.chunks ∧
      d.compression = e.compression ∧ d.shape = e.shape ∧ d.dtype = e.dtype := by
  unfold createEmpty
  simp only [hl, hs, ht, bne_self_eq_false, Bool.or_self, Bool.false_eq_true, if_false]
  exact ⟨_, _, rfl, rfl, rfl, rfl, hs.symm ▸ rfl, ht.symm ▸ rfl⟩

/-- A name occupied by a non-dataset is refused, and the group is left alone. -/
theorem occupied_refused (g : Group) (r : Req) (h : g.lookup r.name = some .other) :
    createEmpty g r = .error .keyErr := by
  unfold createEmpty; simp [h]

theorem lookup_map_other (name k : String) (m : Member) (hk : k ≠ name) : ∀ (g : Group),
    (g.map (fun kv => if kv.1 == name then (name, m) else kv)).lookup k = g.lookup k
  | [] => rfl
  | kv :: rest => by
    simp only [List.map_cons, List.lookup]
    by_cases h1 : kv.1 = name
    · have e1 : (k == name) = false := by simpa using hk
      simp only [h1, beq_self_eq_true, if_true, e1]
      exact lookup_map_other name k m hk rest
    · have e1 : (kv.1 == name) = false := by simpa using h1
      simp only [e1, Bool.false_eq_true, if_false]
      cases hkk : (k == kv.1)
      · exact lookup_map_other name k m hk rest
      · rfl

theorem lookup_append_other (name k : String) (m : Member) (hk : k ≠ name) : ∀ (g : Group),
    (g ++ [(name, m)]).lookup k = g.lookup k
  | [] => by
    have e1 : (k == name) = false := by simpa using hk
    simp [List.lookup, e1]
  | kv :: rest => by
    simp only [List.cons_append, List.lookup]
    cases hkk : (k == kv.1)
    · exact lookup_append_other name k m hk rest
    · rfl

/-- No other member of the destination group changes. -/
theorem others_untouched (g : Group) (r : Req) (g' : Group) (d : Dset) (h : createEmpty g r = .ok (g', d))
    (k : String) (hk : k ≠ r.name) : g'.lookup k = g.lookup k := by
  have key : ∀ m, (setMember g r.name m).lookup k = g.lookup k := by
    intro m
    unfold setMember
    split
    · exact lookup_map_other r.name k m hk g
    · exact lookup_append_other r.name k m hk g
  unfold createEmpty at h
  cases hl : g.lookup r.name with
  | none =>
    simp only [hl] at h
    injection h with h; injection h with h _; rw [← h]; exact key _
  | some m =>
    cases m with
    | other => simp [hl] at h
    | dataset e =>
      simp only [hl] at h
      split at h <;> (injection h with h; injection h with h _; rw [← h]; exact key _)

end Usid.C18
