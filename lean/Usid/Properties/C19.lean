import Usid.Proofs.Translate
import Usid.Properties.C08
/-! C19 — translators preserve element coordinates and produce the canonical layout. -/
set_option linter.unusedSimpArgs false
namespace Usid.C19
open Usid Usid.Anc Usid.Translate

variable {α : Type} [Inhabited α]

/-- coordinates of one side of a written labelled dataset: for any selection `sel` of axes, stored
    dimension `j` of `write_ind_val_dsets(dims(sel), slow_to_fast=True)` carries the name and unit of axis
    `sel[j]`, and at the flat position of the sub-index its index and its physical value are those of the
    element's index along that axis. -/
theorem side_coords (axes : List Axis) (shape idx : List Nat)
    (hshape : shape = axes.map (fun ax => ax.values.length)) (hb : InBounds shape idx)
    (sel : List Nat) (hsel : ∀ i ∈ sel, i < axes.length) (j : Nat) (hj : j < sel.length) :
    let r := ravelC (sel.map (fun ax => shape.getD ax 1)) (sel.map (fun ax => idx.getD ax 0))
    let w := writeIndVal (dimsOf axes sel) true
    ∃ ax ri rv, axes[sel[j]]? = some ax ∧ w.labels[j]? = some ax.name ∧ w.units[j]? = some ax.units ∧
      w.indices[j]? = some ri ∧ w.values[j]? = some rv ∧
      ri[r]? = some (idx.getD sel[j] 0) ∧ rv[r]? = ax.values[idx.getD sel[j] 0]? := by
  intro r w
  have hlen : shape.length = axes.length := by simp [hshape]
  have hselj : sel[j] < axes.length := hsel _ (List.getElem_mem hj)
  -- the dimension list
  let D : List Dim := sel.map (fun i => ((axes[i]?).map Axis.toDim).getD arbDim)
  have hD : dimsOf axes sel = D := by
    unfold dimsOf
    have hne : sel ≠ [] := by
      intro h; subst h; simp at hj
    simp [D, hne]
  have hDlen : D.length = sel.length := by simp [D]
  have hsh : ∀ i, i < axes.length → shape.getD i 1 = (((axes[i]?).map Axis.toDim).getD arbDim).values.length := by
    intro i hi
    subst hshape
    simp [List.getD_eq_getElem?_getD, List.getElem?_eq_getElem hi, Axis.toDim]
  have hDmap : D.map (fun dm => dm.values.length) = sel.map (fun ax => shape.getD ax 1) := by
    simp only [D, List.map_map]
    apply List.map_congr_left
    intro i hi
    simp only [Function.comp_apply]
    exact (hsh i (hsel i hi)).symm
  have hbsel := inBounds_map shape idx hb sel (fun i hi => by rw [hlen]; exact hsel i hi)
  have hpos : ∀ dm ∈ D, 0 < dm.values.length := by
    intro dm hdm
    obtain ⟨i, hi, rfl⟩ := List.mem_map.mp hdm
    have h1 := inBounds_getD shape idx i hb (by rw [hlen]; exact hsel i hi)
    rw [hsh i (hsel i hi)] at h1
    omega
  have hr : r < (D.map (fun dm => dm.values.length)).prod := by
    rw [hDmap]; exact ravelC_lt _ _ hbsel
  obtain ⟨hlab, hun, ri, rv, h1, h2, h3, h4⟩ :=
    C08.written_slowest_first D true j r hpos D rfl (by rw [hDlen]; exact hj) hr
  have hDj : D[j]'(by rw [hDlen]; exact hj) = (axes[sel[j]]'hselj).toDim := by
    simp [D, List.getElem?_eq_getElem hselj]
  have hdig : r / ((D.drop (j + 1)).map (fun dm => dm.values.length)).prod %
      (D[j]'(by rw [hDlen]; exact hj)).values.length = idx.getD sel[j] 0 := by
    have := ravelC_digit (sel.map (fun ax => shape.getD ax 1)) (sel.map (fun ax => idx.getD ax 0)) j hbsel (by simpa using hj)
    rw [List.map_drop, hDmap]
    have e1 : (D[j]'(by rw [hDlen]; exact hj)).values.length = (sel.map (fun ax => shape.getD ax 1)).getD j 1 := by
      rw [List.getD_eq_getElem?_getD, List.getElem?_map, List.getElem?_eq_getElem hj]
      simp only [Option.map_some, Option.getD_some]
      rw [hsh _ hselj, hDj]
      simp [List.getElem?_eq_getElem hselj]
    rw [e1, this]
    simp [List.getD_eq_getElem?_getD, List.getElem?_eq_getElem hj]
  refine ⟨axes[sel[j]]'hselj, ri, rv, List.getElem?_eq_getElem hselj, ?_, ?_, ?_, ?_, ?_, ?_⟩
  · show (writeIndVal (dimsOf axes sel) true).labels[j]? = _
    rw [hD, hlab, List.getElem?_map, List.getElem?_eq_getElem (by rw [hDlen]; exact hj), hDj]; rfl
  · show (writeIndVal (dimsOf axes sel) true).units[j]? = _
    rw [hD, hun, List.getElem?_map, List.getElem?_eq_getElem (by rw [hDlen]; exact hj), hDj]; rfl
  · show (writeIndVal (dimsOf axes sel) true).indices[j]? = _
    rw [hD]; exact h1
  · show (writeIndVal (dimsOf axes sel) true).values[j]? = _
    rw [hD]; exact h2
  · rw [h3, hdig]
  · rw [h4, hdig, hDj]; rfl

/-- LABELLED DATASETS.  For every array, every list of axes (any number, any typing and ordering of
    spatial and other axes, any sizes and values) and every element index `idx`: the written Main matrix
    has shape [∏ spatial sizes, ∏ other sizes]; the element `a[idx]` sits at row `r` = flat index of its
    spatial sub-index and column `c` = flat index of its remaining sub-index; and at that row / column the
    position / spectroscopic ancillaries carry, for every axis, its name, unit, the element's index along
    it and the axis value at that index.  So every element keeps the value of every named axis. -/
theorem sidpy_coords (a : NDArr α) (axes : List Axis) (idx : List Nat)
    (hshape : a.shape = axes.map (fun ax => ax.values.length)) (hb : InBounds a.shape idx) :
    let P := spatialIdx axes
    let Q := spectralIdx axes
    let shP := P.map (fun ax => a.shape.getD ax 1)
    let shQ := Q.map (fun ax => a.shape.getD ax 1)
    let r := ravelC shP (P.map (fun ax => idx.getD ax 0))
    let c := ravelC shQ (Q.map (fun ax => idx.getD ax 0))
    let o := writeSidpy a axes
    o.main.shape = [shP.prod, shQ.prod] ∧ r < shP.prod ∧ c < shQ.prod ∧
    o.main.get [r, c] = a.get idx ∧
    (∀ j (hj : j < P.length), ∃ ax ri rv, axes[P[j]]? = some ax ∧ o.pos.labels[j]? = some ax.name ∧
        o.pos.units[j]? = some ax.units ∧ o.pos.indices[j]? = some ri ∧ o.pos.values[j]? = some rv ∧
        ri[r]? = some (idx.getD P[j] 0) ∧ rv[r]? = ax.values[idx.getD P[j] 0]?) ∧
    (∀ j (hj : j < Q.length), ∃ ax ri rv, axes[Q[j]]? = some ax ∧ o.spec.labels[j]? = some ax.name ∧
        o.spec.units[j]? = some ax.units ∧ o.spec.indices[j]? = some ri ∧ o.spec.values[j]? = some rv ∧
        ri[c]? = some (idx.getD Q[j] 0) ∧ rv[c]? = ax.values[idx.getD Q[j] 0]?) := by
  intro P Q shP shQ r c o
  have hlen : a.shape.length = axes.length := by simp [hshape]
  have hidx : idx.length = axes.length := by rw [← hlen]; exact (inBounds_length _ _ hb).symm
  have hbP := inBounds_map a.shape idx hb P (fun i hi => by rw [hlen]; exact spatial_lt axes i hi)
  have hbQ := inBounds_map a.shape idx hb Q (fun i hi => by rw [hlen]; exact spectral_lt axes i hi)
  have hr := ravelC_lt _ _ hbP
  have hc := ravelC_lt _ _ hbQ
  refine ⟨rfl, hr, hc, ?_, ?_, ?_⟩
  · -- the element
    have hbPQ : InBounds ((P ++ Q).map (fun ax => a.shape.getD ax 1)) ((P ++ Q).map (fun ax => idx.getD ax 0)) :=
      inBounds_map a.shape idx hb (P ++ Q) (by
        intro i hi
        rw [hlen]
        rcases List.mem_append.mp hi with h | h
        · exact spatial_lt axes i h
        · exact spectral_lt axes i h)
    have ht := transpose_get a (P ++ Q) (inversePerm axes.length (P ++ Q)) ((P ++ Q).map (fun ax => idx.getD ax 0)) hbPQ
    have hg : gatherIdx (inversePerm axes.length (P ++ Q)) ((P ++ Q).map (fun ax => idx.getD ax 0)) = idx := by
      rw [← hidx]
      exact gather_inverse idx (P ++ Q) (fun i hi => mem_spatial_or_spectral axes i (by rw [← hidx]; exact hi))
    rw [hg] at ht
    rw [← ht]
    show ((a.transpose (P ++ Q) (inversePerm axes.length (P ++ Q))).reshape [shP.prod, shQ.prod]).get [r, c] = _
    rw [reshape_get]
    unfold NDArr.get
    congr 1
    have hsh : (a.transpose (P ++ Q) (inversePerm axes.length (P ++ Q))).shape = shP ++ shQ := by
      simp [NDArr.transpose, shP, shQ]
    rw [hsh, List.map_append, ravelC_append _ _ _ _ (by simp [shP])]
    simp [ravelC, r, c]
  · intro j hj
    exact side_coords axes a.shape idx hshape hb P (spatial_lt axes) j hj
  · intro j hj
    exact side_coords axes a.shape idx hshape hb Q (spectral_lt axes) j hj

/-- non-vacuity and the reason for the repair of D12: with a spectral axis BEFORE a spatial one the
    flatten-as-is version puts elements under the wrong coordinates, while the repaired one does not. -/
theorem unfixed_reshape_counterexample :
    let a : NDArr Nat := { shape := [2, 3], flat := [0, 1, 2, 3, 4, 5] }
    let axes : List Axis := [⟨"t", "s", [0, 1], false⟩, ⟨"x", "m", [0, 1, 2], true⟩]
    -- element a[1, 0] = 3 belongs at row (x = 0) and column (t = 1)
    (writeSidpyUnfixed a axes).main.get [0, 1] = 1 ∧ (writeSidpy a axes).main.get [0, 1] = 3 ∧ a.get [1, 0] = 3 := by
  decide

/-- IMAGES.  For every H x W image and every pixel (y, x): the Main matrix has shape [W*H, 1]; pixel
    (y, x) sits in row x*H + y; the stored position dimensions are X (slowest) then Y, and at that row
    their indices are x and y. -/
theorem image_pixels (img : NDArr α) (h w y x : Nat) (hshape : img.shape = [h, w]) (hy : y < h) (hx : x < w) :
    let o := imageTranslate img
    o.main.shape = [w * h, 1] ∧ x * h + y < w * h ∧
    o.main.get [x * h + y, 0] = img.get [y, x] ∧
    o.pos.labels = ["X", "Y"] ∧
    (∃ rx ry, o.pos.indices = [rx, ry] ∧ rx[x * h + y]? = some x ∧ ry[x * h + y]? = some y) := by
  intro o
  have hlt : x * h + y < w * h := by
    calc x * h + y < x * h + h := by omega
      _ = (x + 1) * h := by rw [Nat.add_mul, Nat.one_mul]
      _ ≤ w * h := Nat.mul_le_mul_right _ hx
  have ho : o = imageTranslate img := rfl
  unfold imageTranslate at ho
  simp only [hshape, List.getD_cons_zero, List.getD_cons_succ] at ho
  refine ⟨by rw [ho]; rfl, hlt, ?_, ?_, ?_⟩
  · rw [ho]
    show ((img.transpose [1, 0] [1, 0]).reshape [w * h, 1]).get [x * h + y, 0] = _
    have hb : InBounds ([1, 0].map (fun ax => img.shape.getD ax 1)) [x, y] := by
      simp [hshape, InBounds, hx, hy]
    have ht := transpose_get img [1, 0] [1, 0] [x, y] hb
    have hg : gatherIdx [1, 0] [x, y] = [y, x] := by simp [gatherIdx]
    rw [hg] at ht
    rw [← ht, reshape_get]
    unfold NDArr.get
    congr 1
    simp [NDArr.transpose, hshape, ravelC]
  · rw [ho]
    simp [writeIndVal]
  · let D : List Dim := [⟨"X", "a.u.", (List.range w).map (fun (i : Nat) => 4 * (i : Int))⟩,
                        ⟨"Y", "a.u.", (List.range h).map (fun (i : Nat) => 4 * (i : Int))⟩]
    have hposD : ∀ dm ∈ D.reverse, 0 < dm.values.length := by
      intro dm hdm
      simp only [D, List.reverse_cons, List.reverse_nil, List.nil_append, List.cons_append, List.mem_cons,
        List.not_mem_nil, or_false] at hdm
      rcases hdm with rfl | rfl <;> simp <;> omega
    have hprod : (D.map (fun dm => dm.values.length)).prod = w * h := by simp [D]
    obtain ⟨_, _, rx, vx, h1, _, h3, _⟩ :=
      C08.written_slowest_first D.reverse false 0 (x * h + y) hposD D (by simp) (by simp [D]) (by rw [hprod]; exact hlt)
    obtain ⟨_, _, ry, vy, k1, _, k3, _⟩ :=
      C08.written_slowest_first D.reverse false 1 (x * h + y) hposD D (by simp) (by simp [D]) (by rw [hprod]; exact hlt)
    have hrev : D.reverse = [⟨"Y", "a.u.", (List.range h).map (fun (i : Nat) => 4 * (i : Int))⟩,
                             ⟨"X", "a.u.", (List.range w).map (fun (i : Nat) => 4 * (i : Int))⟩] := by simp [D]
    rw [hrev] at h1 k1
    have hlen2 : o.pos.indices.length = 2 := by
      rw [ho]; simp [writeIndVal, buildIndVal, buildRows]
    have hpos : o.pos = writeIndVal [⟨"Y", "a.u.", (List.range h).map (fun (i : Nat) => 4 * (i : Int))⟩,
                                     ⟨"X", "a.u.", (List.range w).map (fun (i : Nat) => 4 * (i : Int))⟩] false := by
      rw [ho]
    rw [← hpos] at h1 k1
    refine ⟨rx, ry, ?_, ?_, ?_⟩
    · match hm : o.pos.indices, hlen2 with
      | [u, v], _ =>
        rw [hm] at h1 k1
        simp only [List.getElem?_cons_zero, List.getElem?_cons_succ, Option.some.injEq] at h1 k1
        rw [h1, k1]
    · rw [h3]
      simp only [D, List.drop_succ_cons, List.drop_zero, List.map_cons, List.map_nil, List.length_map,
        List.length_range, List.prod_cons, List.prod_nil, Nat.mul_one, List.getElem_cons_zero]
      congr 1
      rw [Nat.mul_comm, Nat.mul_add_div (by omega), Nat.div_eq_of_lt hy, Nat.add_zero, Nat.mod_eq_of_lt hx]
    · rw [k3]
      simp only [D, List.drop_succ_cons, List.drop_nil, List.map_nil, List.prod_nil, Nat.div_one,
        List.getElem_cons_succ, List.getElem_cons_zero, List.length_map, List.length_range]
      congr 1
      rw [Nat.mul_comm, Nat.mul_add_mod, Nat.mod_eq_of_lt hy]

/-! ### ArrayTranslator -/

/-- the independent statement of validity of an input -/
def Valid (a : ArrIn) : Prop :=
  a.stringsOk = true ∧ a.data = .array 2 ∧
  (∃ l, a.pos = .dims l ∧ npointsOf l = a.n) ∧ (∃ l, a.spec = .dims l ∧ npointsOf l = a.m) ∧
  a.extrasIsDict = true ∧
  ∀ e ∈ a.extras, e.keyIsStr = true ∧ (∀ x ∈ reserved, isSub e.key.toList x.toList = false) ∧ e.val = .arrayLike

theorem validateExtras_ok : ∀ (l : List Extra), validateExtras l = .ok () ↔
    ∀ e ∈ l, e.keyIsStr = true ∧ (∀ x ∈ reserved, isSub e.key.toList x.toList = false) ∧ e.val = .arrayLike
  | [] => by simp [validateExtras]
  | e :: rest => by
    have ih := validateExtras_ok rest
    unfold validateExtras
    by_cases h1 : e.keyIsStr = true
    · by_cases h2 : reserved.any (fun x => isSub e.key.toList x.toList) = true
      · simp only [h1, h2]
        constructor
        · intro h; simp at h
        · intro h
          have := (h e (by simp)).2.1
          obtain ⟨x, hx, hs⟩ := List.any_eq_true.mp h2
          rw [this x hx] at hs; cases hs
      · have h2' : ∀ x ∈ reserved, isSub e.key.toList x.toList = false := by
          intro x hx
          cases hh : isSub e.key.toList x.toList
          · rfl
          · exact absurd (List.any_eq_true.mpr ⟨x, hx, hh⟩) h2
        by_cases h3 : e.val = .arrayLike
        · simp only [h1, h2, h3]
          simp only [Bool.not_true, Bool.false_eq_true, if_false, bne_self_eq_false]
          rw [ih]
          constructor
          · intro h e' he'
            rcases List.mem_cons.mp he' with rfl | hm
            · exact ⟨h1, h2', h3⟩
            · exact h e' hm
          · intro h e' he'; exact h e' (List.mem_cons_of_mem _ he')
        · have h3' : (e.val != ExtraVal.arrayLike) = true := by simpa using h3
          simp only [h1, h2, h3']
          simp only [Bool.not_true, Bool.false_eq_true, if_false, if_true]
          constructor
          · intro h; cases h
          · intro h; exact absurd (h e (by simp)).2.2 h3
    · have h1' : e.keyIsStr = false := by simpa using h1
      simp only [h1']
      constructor
      · intro h; simp at h
      · intro h; have := (h e (by simp)).1; rw [h1'] at this; cases this

/-- The translator accepts exactly the valid inputs. -/
theorem array_valid_iff (a : ArrIn) : validate a = .ok () ↔ Valid a := by
  unfold validate Valid
  cases hs : a.stringsOk
  · simp [throw, throwThe, MonadExceptOf.throw, bind, Except.bind]
  · cases hd : a.data with
    | badType => simp [throw, throwThe, MonadExceptOf.throw, bind, Except.bind]
    | array rk =>
      by_cases hr : rk = 2
      · subst hr
        cases hp : a.pos with
        | badType => simp [validateSide, throw, throwThe, MonadExceptOf.throw, bind, Except.bind, pure, Except.pure]
        | dims lp =>
          cases hq : a.spec with
          | badType =>
            by_cases h1 : npointsOf lp = a.n <;>
              simp [validateSide, h1, throw, throwThe, MonadExceptOf.throw, bind, Except.bind, pure, Except.pure]
          | dims lq =>
            by_cases h1 : npointsOf lp = a.n
            · by_cases h2 : npointsOf lq = a.m
              · cases he : a.extrasIsDict
                · simp [validateSide, h1, h2, throw, throwThe, MonadExceptOf.throw, bind, Except.bind, pure, Except.pure]
                · simp only [validateSide, h1, h2, throw, throwThe, MonadExceptOf.throw, bind, Except.bind, pure, Except.pure,
                    bne_self_eq_false, Bool.not_true, Bool.false_eq_true, if_false]
                  rw [validateExtras_ok]
                  simp [h1, h2]
              · simp [validateSide, h1, h2, throw, throwThe, MonadExceptOf.throw, bind, Except.bind, pure, Except.pure]
            · simp [validateSide, h1, throw, throwThe, MonadExceptOf.throw, bind, Except.bind, pure, Except.pure]
      · simp [hr, throw, throwThe, MonadExceptOf.throw, bind, Except.bind, pure, Except.pure]

/-- Inputs inconsistent with their descriptors are rejected BEFORE any file is produced: whatever was at
    the output path (nothing, or an earlier file) is still there, unchanged. -/
theorem array_rejected_before_file (p : PathState) (a : ArrIn) (h : ¬ Valid a) :
    ∃ e, arrayTranslate p a = (p, .error e) := by
  unfold arrayTranslate
  cases hv : validate a with
  | error e => exact ⟨e, rfl⟩
  | ok u => cases u; exact absurd ((array_valid_iff a).mp hv) h

/-- A valid input replaces whatever was at the path by one file in the standard layout: the two root
    attributes, `Measurement_000` with the supplied parameters verbatim, `Channel_000` holding `Raw_Data`
    (the input matrix verbatim, with quantity and units), the four ancillary datasets built from the
    dimension lists (first dimension fastest), and the extra datasets verbatim under their keys. -/
theorem array_layout (p : PathState) (a : ArrIn) (h : Valid a) :
    ∃ f, arrayTranslate p a = (.usid f, .ok ()) ∧
      f.rootAttrs = [("data_type", a.dataName), ("translator", a.translator)] ∧
      f.measName = "Measurement_000" ∧ f.measAttrs = a.parms ∧ f.chanName = "Channel_000" ∧
      f.mainShape = [a.n, a.m] ∧ f.main = a.raw ∧ f.quantityUnitsSet = true ∧
      f.pos = writeIndVal (dimsList a.pos) false ∧ f.spec = writeIndVal (dimsList a.spec) false ∧
      f.extras = a.extras.map (fun e => (e.key, e.content)) ∧
      (∀ e ∈ a.extras, e.key ∈ f.members) ∧ "Raw_Data" ∈ f.members := by
  unfold arrayTranslate
  rw [(array_valid_iff a).mpr h]
  refine ⟨build a, rfl, rfl, rfl, rfl, rfl, rfl, rfl, rfl, rfl, rfl, rfl, ?_, by simp [build]⟩
  intro e he
  simp only [build, List.mem_append, List.mem_map]
  exact Or.inr ⟨e, he, rfl⟩

/-- the coordinates of an element written by the ArrayTranslator: the composition of `array_layout` with
    C08's `written_slowest_first` (first supplied dimension fastest). -/
theorem array_coords (p : PathState) (a : ArrIn) (h : Valid a) (l : List Dim) (hl : a.pos = .dims l)
    (hpos : ∀ dm ∈ l, 0 < dm.values.length) (j r : Nat) (hj : j < l.reverse.length) (hr : r < a.n) :
    ∃ f ri rv, arrayTranslate p a = (.usid f, .ok ()) ∧ f.pos.labels = l.reverse.map (·.name) ∧
      f.pos.indices[j]? = some ri ∧ f.pos.values[j]? = some rv ∧
      ri[r]? = some (r / ((l.reverse.drop (j + 1)).map (fun dm => dm.values.length)).prod % (l.reverse[j]).values.length) ∧
      rv[r]? = (l.reverse[j]).values[r / ((l.reverse.drop (j + 1)).map (fun dm => dm.values.length)).prod % (l.reverse[j]).values.length]? := by
  obtain ⟨f, hf, _, _, _, _, _, _, _, hp, _⟩ := array_layout p a h
  obtain ⟨l', hl', hn⟩ := h.2.2.1
  rw [hl] at hl'; injection hl' with hl'; subst hl'
  have hr' : r < (l.reverse.map (fun dm => dm.values.length)).prod := by
    rw [List.map_reverse, (List.reverse_perm _).prod_nat]; unfold npointsOf at hn; rw [hn]; exact hr
  obtain ⟨hlab, _, ri, rv, h1, h2, h3, h4⟩ := C08.written_slowest_first l false j r hpos l.reverse (by simp) hj hr'
  rw [hl] at hp
  exact ⟨f, ri, rv, hf, by rw [hp]; exact hlab, by rw [hp]; exact h1, by rw [hp]; exact h2, h3, h4⟩

-- non-vacuity: a concrete valid input, a concrete rejected one
example : validate { stringsOk := true, dataName := "d", translator := "t", data := .array 2, n := 2, m := 1, raw := [0, 1],
                     pos := .dims [⟨"X", "m", [0, 4]⟩], spec := .dims [⟨"arb", "a", [0]⟩], parms := [],
                     extrasIsDict := true, extras := [⟨true, "Mask", .arrayLike, [1]⟩] } = .ok () := by rfl
example : validate { stringsOk := true, dataName := "d", translator := "t", data := .array 2, n := 2, m := 1, raw := [0, 1],
                     pos := .dims [⟨"X", "m", [0, 4]⟩], spec := .dims [⟨"arb", "a", [0]⟩], parms := [],
                     extrasIsDict := true, extras := [⟨true, "Values", .arrayLike, [1]⟩] } = .error .keyErr := by rfl

end Usid.C19
