import Usid.Model.ReadOnly
/-! C20 — read-side operations work on read-only files and never change the file. -/
namespace Usid.C20
open Usid Usid.ReadOnly

theorem runTrace_reads (m : Mode) (s : Store) : ∀ (t : List Prim), t.all (fun p => !p.needsWritable) = true →
    runTrace m s t = (s, none)
  | [], _ => rfl
  | p :: rest, h => by
    simp only [List.all_cons, Bool.and_eq_true] at h
    cases p with
    | read => simp only [runTrace, applyPrim]; exact runTrace_reads m s rest h.2
    | guard => simp [Prim.needsWritable] at h
    | write c v => simp [Prim.needsWritable] at h

theorem runTrace_ro (s : Store) : ∀ (t : List Prim),
    (runTrace .ro s t).1 = s ∧ (t.any Prim.needsWritable = true → (runTrace .ro s t).2 = some .osErr)
  | [] => by simp [runTrace]
  | p :: rest => by
    cases p with
    | read =>
      simp only [runTrace, applyPrim, List.any_cons, Prim.needsWritable, Bool.false_or]
      exact runTrace_ro s rest
    | guard => simp [runTrace, applyPrim]
    | write c v => simp [runTrace, applyPrim]

variable {ρ : Type} (observe : String → Store → Bool → ρ)

/-- FRAME.  Any sequence of read-side calls (including sort toggles) whose traces contain no modifying
    primitive leaves the file exactly as it was and raises nothing - on read-only and writable files
    alike - and every call returns what it would return on a fresh wrapper of the unchanged file whose
    flag is the initial one flipped once per earlier toggle (history independence). -/
theorem read_frame (m : Mode) (s : Store) (flag : Bool) : ∀ (h : List Call),
    (∀ c ∈ h, c.kind ≠ .write ∧ c.conforms = true) →
    (run observe ⟨m, s, flag⟩ h).1.store = s ∧ (run observe ⟨m, s, flag⟩ h).1.mode = m ∧
    (run observe ⟨m, s, flag⟩ h).2 = expected observe s flag h
  | [], _ => ⟨rfl, rfl, rfl⟩
  | c :: rest, hall => by
    obtain ⟨hk, hc⟩ := hall c (by simp)
    have htr : c.trace.all (fun p => !p.needsWritable) = true := by
      unfold Call.conforms at hc
      cases hkind : c.kind <;> simp [hkind] at hc hk ⊢ <;> exact hc
    have hstep : step observe ⟨m, s, flag⟩ c =
        (⟨m, s, if c.kind = .toggle then !flag else flag⟩, ⟨none, some (observe c.name s flag)⟩) := by
      simp only [step, runTrace_reads m s c.trace htr]
    have ih := read_frame m s (if c.kind = .toggle then !flag else flag) rest
      (fun c' hc' => hall c' (List.mem_cons_of_mem _ hc'))
    simp only [run, hstep, expected]
    exact ⟨ih.1, ih.2.1, by rw [ih.2.2]⟩

/-- the flag seen by the call after `h`: the initial one flipped once per toggle -/
def flagAfter (flag : Bool) (h : List Call) : Bool :=
  if (h.filter (fun c => c.kind = .toggle)).length % 2 = 1 then !flag else flag

theorem expected_append (s : Store) (flag : Bool) : ∀ (h : List Call) (c : Call),
    expected observe s flag (h ++ [c]) = expected observe s flag h ++ [⟨none, some (observe c.name s (flagAfter flag h))⟩]
  | [], c => by simp [expected, flagAfter]
  | d :: rest, c => by
    simp only [List.cons_append, expected, expected_append s _ rest c]
    congr 4
    unfold flagAfter
    by_cases hd : d.kind = .toggle
    · simp only [hd, if_true, List.filter_cons, decide_true, List.length_cons]
      cases flag <;> (split <;> split <;> first | rfl | omega)
    · simp only [hd, if_false, List.filter_cons, decide_false]
      simp

/-- HISTORY INDEPENDENCE, stated for the last call: after any conforming read-side history the call
    returns `observe name file (initial flag ⊕ parity of toggles)` - nothing else of the history matters. -/
theorem history_independent_reads (m : Mode) (s : Store) (flag : Bool) (h : List Call) (c : Call)
    (hall : ∀ d ∈ h ++ [c], d.kind ≠ .write ∧ d.conforms = true) :
    (run observe ⟨m, s, flag⟩ (h ++ [c])).2.getLast? = some ⟨none, some (observe c.name s (flagAfter flag h))⟩ := by
  rw [(read_frame observe m s flag (h ++ [c]) hall).2.2, expected_append]
  simp

/-- REFUSAL.  A call that must write (its trace contains a modifying primitive) raises on a read-only
    file and leaves the file unchanged. -/
theorem write_refused (s : Store) (flag : Bool) (c : Call) (hk : c.kind = .write) (hc : c.conforms = true) :
    (step observe ⟨.ro, s, flag⟩ c).1.store = s ∧ (step observe ⟨.ro, s, flag⟩ c).2.err = some .osErr ∧
    (step observe ⟨.ro, s, flag⟩ c).2.result = none := by
  have hany : c.trace.any Prim.needsWritable = true := by
    unfold Call.conforms at hc; simpa [hk] using hc
  have h1 := (runTrace_ro s c.trace).1
  have h3 := (runTrace_ro s c.trace).2 hany
  unfold step
  generalize runTrace Mode.ro s c.trace = rt at h1 h3
  obtain ⟨s', e⟩ := rt
  simp only at h1 h3
  subst h1; subst h3
  exact ⟨rfl, rfl, rfl⟩

/-- On a read-only file NO history whatsoever (conforming or not, read or write side) changes the file. -/
theorem ro_never_changes (s : Store) : ∀ (flag : Bool) (h : List Call), (run observe ⟨.ro, s, flag⟩ h).1.store = s
  | _, [] => rfl
  | flag, c :: rest => by
    have h1 := (runTrace_ro s c.trace).1
    simp only [run, step]
    generalize runTrace Mode.ro s c.trace = rt at h1
    obtain ⟨s', e⟩ := rt
    simp only at h1
    subst h1
    cases e with
    | none => exact ro_never_changes s' _ rest
    | some err => exact ro_never_changes s' _ rest

/-- ... whereas a call that reaches a modifying primitive on a writable file does change it (so the
    refusal theorem is about something): nothing raises and the modification log grows. -/
theorem rw_write_changes : ∀ (s : Store) (t : List Prim), t.any Prim.isWrite = true →
    (runTrace .rw s t).2 = none ∧ s.length < (runTrace .rw s t).1.length
  | _, [], h => by simp at h
  | s, p :: rest, h => by
    cases p with
    | read =>
      simp only [List.any_cons, Prim.isWrite, Bool.false_or] at h
      simp only [runTrace, applyPrim]
      exact rw_write_changes s rest h
    | guard =>
      simp only [List.any_cons, Prim.isWrite, Bool.false_or] at h
      simp only [runTrace, applyPrim]
      exact rw_write_changes s rest h
    | write c v =>
      simp only [runTrace, applyPrim]
      have key : ∀ (r : List Prim) (s0 : Store), (runTrace .rw s0 r).2 = none ∧ s0.length ≤ (runTrace .rw s0 r).1.length := by
        intro r
        induction r with
        | nil => intro s0; simp [runTrace]
        | cons q r ih =>
          intro s0
          cases q with
          | read => simp only [runTrace, applyPrim]; exact ih s0
          | guard => simp only [runTrace, applyPrim]; exact ih s0
          | write c' v' =>
            simp only [runTrace, applyPrim]
            have := ih (s0 ++ [(c', v')])
            refine ⟨this.1, ?_⟩
            have h2 := this.2
            simp only [List.length_append, List.length_singleton] at h2
            omega
      have := key rest (s ++ [(c, v)])
      refine ⟨this.1, ?_⟩
      have h2 := this.2
      simp only [List.length_append, List.length_singleton] at h2
      omega

/-- every name of the API table has exactly one kind; read-side and write-side names are disjoint -/
theorem table_functional : (kindTable.map (·.1)).Nodup := by decide

-- non-vacuity: a concrete conforming history with two toggles, on a read-only file
example : (run (fun n _ f => (n, f)) ⟨.ro, [], false⟩
    [⟨"wrap", .read, [.read, .read]⟩, ⟨"toggle_sorting", .toggle, []⟩, ⟨"slice", .read, [.read]⟩]).2.map (·.result) =
    [some ("wrap", false), some ("toggle_sorting", false), some ("slice", true)] := by decide
example : (step (fun n _ f => (n, f)) ⟨.ro, [], false⟩ ⟨"create_indexed_group", .write, [.read, .write 0 1]⟩).2.err
    = some .osErr := by decide

end Usid.C20
