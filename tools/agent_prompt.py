"""prints the prompt given to a fresh mutation sub-agent for one property (nothing from /verif leaks into it
except the text of the property itself)"""
import json, sys
pid = sys.argv[1]
wt = sys.argv[2]
props = {json.loads(l)['id']: json.loads(l) for l in open('/verif/properties.jsonl')}
p = props[pid]
print(f"""You are helping to evaluate a verification effort for the Python library pyUSID (pycroscopy/pyUSID).
Your job: produce ONE realistic, subtle code change (a "seeded bug") to pyUSID that BREAKS the behavioural property
quoted below, while the package still imports and the repository's existing test-suite results do not get worse.

PROPERTY ({pid}: {p['title']})
{p['statement']}
Quantified over: {p['quantifier']['text']}
Relevant source files: {', '.join(p['anchors']['files'])}

WORKSPACE
* You have your own scratch git worktree of the repository at {wt} . Work ONLY inside {wt} (and /tmp for scratch).
  Do NOT read, list or touch /verif or /repo, and do not look for other people's checks - your change must be
  independent of whatever checks exist.
* Python: /venv/bin/python (numpy 2.x, h5py, dask, sidpy installed). Run everything with cwd={wt} so that
  `import pyUSID` resolves to {wt}/pyUSID (verify with `/venv/bin/python -c "import pyUSID; print(pyUSID.__file__)"`).
  Every command prints a harmless conda WARNING line first.
* Existing tests: `cd {wt} && /venv/bin/python -m pytest -q -p no:cacheprovider --timeout=900 --continue-on-collection-errors -rf tests 2>&1 | tail -5`
  (about 25 s).  On the UNCHANGED tree 347 tests pass and 12 fail (numpy-2 incompatibilities in the tests);
  that is the baseline.  Record the set of failing test ids BEFORE your change (e.g. with `-rf`), and make sure that
  after your change exactly the same tests pass (no new failure, no new error).
* IMPORTANT: pyUSID is also installed (editable) from another checkout, and a script started as `_seed/demo.py` gets
  `_seed/` - not the worktree root - on sys.path.  demo.py must therefore begin with
  `import sys, os; sys.path.insert(0, os.path.dirname(os.path.dirname(os.path.abspath(__file__))))` and should print
  `pyUSID.__file__` so that you can see that YOUR worktree's code is the one being exercised.
* Useful facts: USID files for a demonstration are best built with raw h5py
  (main dataset with attrs quantity/units and four object-reference attrs Position_Indices, Position_Values,
  Spectroscopic_Indices, Spectroscopic_Values pointing at 2-D ancillary datasets that carry string-array attrs
  `labels` and `units`); tests/io/data_utils.py shows how.

WHAT KIND OF CHANGE
* It must be the sort of mistake a maintainer could plausibly make (an off-by-one, a wrong comparison, a reordered
  statement, a wrong variable, a dropped special case, two cooperating edits that each look fine alone ...), small
  (a few lines), and NOT something ordinary use or the existing tests expose at once.
* It should need something specific to manifest: a particular interleaving or crash/fault point, a multi-step
  sequence of operations, an unusual input (sizes, masks, names, orders), a particular configuration.
* It must genuinely violate the property as quoted (not merely change an error message or an exception type that the
  property does not mention).

DELIVERABLES (put them in {wt}/_seed/ ; create the directory)
1. {wt}/_seed/patch.diff : output of `git -C {wt} diff -- pyUSID` (only files under pyUSID/ changed; do not commit).
2. {wt}/_seed/demo.py : a small self-contained program (run as `cd {wt} && /venv/bin/python _seed/demo.py`) that
   exits 0 and prints PASS when the property holds on the scenario, and exits 1 printing FAIL when it is violated.
   It must FAIL with your change applied and PASS on the unchanged tree (check both, e.g. with
   or `git apply -R`).  Use temporary directories for files.  Do NOT use `git stash`: the stash is shared by all
   worktrees of the repository and other people work in sibling worktrees; use
   `git diff -- pyUSID > /tmp/<yours>.diff; git apply -R /tmp/<yours>.diff; ...; git apply /tmp/<yours>.diff`.
3. {wt}/_seed/meta.json : {{"property": "{pid}", "summary": "...what was changed...", "needs": "...what is needed
   for the bug to manifest...", "tests": "...what you ran and the pass/fail counts before and after..."}}
Leave the change APPLIED in the worktree when you finish.  In your final answer give a 5-10 line summary (what
the change is, why it breaks the property, what is needed to trigger it, test counts before/after).
""")
