"""second-round prompt: as agent_prompt.py, plus a line telling the agent which change was already made by an
earlier participant so that it picks a different mechanism"""
import json, sys, glob, os, subprocess
pid, wt = sys.argv[1], sys.argv[2]
base = subprocess.check_output([sys.executable, os.path.join(os.path.dirname(__file__), 'agent_prompt.py'), pid, wt]).decode()
prev = []
for d in sorted(glob.glob('/verif/seeded/%s-*' % pid)):
    m = json.load(open(d + '/meta.json'))
    prev.append('- ' + m.get('summary', '')[:300].replace('\n', ' '))
extra = ('\nALREADY TAKEN (by earlier participants - choose a DIFFERENT function, mechanism or clause of the property; '
         'do not produce a variation of these):\n' + '\n'.join(prev) + '\n')
marker = 'DELIVERABLES'
i = base.index(marker)
print(base[:i] + extra.lstrip('\n') + '\n' + base[i:])
