#!/bin/bash
# usage: harvest_witnesses.sh [seed-id prefix]
# for every stored seed: apply it to /repo, run the quick check of its property with a few generator seeds until it is
# caught, and append the input of the first concrete replay to corpus/<P>/seed_witnesses.jsonl (cases of the corpus
# always run first, so the detection of a stored seed no longer depends on what the random generator happens to draw)
cd /verif
for d in seeded/${1:-}*/; do
  id=$(basename $d); P=${id%%-*}
  grep -q '"neutralised"' $d/meta.json 2>/dev/null && continue
  pf=$d/patch.diff; [ -f $d/patch.rebased.diff ] && pf=$d/patch.rebased.diff
  git -C /repo apply /verif/$pf || { echo "$id NOAPPLY"; continue; }
  got=""
  for S in 0 1 2 3; do
    rm -f replays/${P}_*.json
    VERIF_SEED=$S ./check $P > /tmp/hw.txt 2>&1
    f=$(grep '^VIOLATION' /tmp/hw.txt | grep -v no-failing | head -1 | sed 's/.*replay=\([^ ]*\).*/\1/')
    if [ -n "$f" ] && [ -f "$f" ]; then got=$f; break; fi
  done
  git -C /repo checkout -- .; git -C /verif checkout -- lean/Usid/Generated evidence
  if [ -z "$got" ]; then echo "$id NO-WITNESS"; continue; fi
  /venv/bin/python - "$got" "$P" "$id" <<'PY'
import json, sys, os
f, P, sid = sys.argv[1:4]
r = json.load(open(f))
inp = r.get('input')
if inp is None:
    print(sid, 'replay without input'); sys.exit(0)
os.makedirs('/verif/corpus/%s' % P, exist_ok=True)
path = '/verif/corpus/%s/seed_witnesses.jsonl' % P
have = set(open(path).read().splitlines()) if os.path.exists(path) else set()
line = json.dumps(inp, sort_keys=True)
if line not in have:
    open(path, 'a').write(line + '\n')
print(sid, 'witness stored', len(line))
PY
done
