#!/bin/bash
# applies every stored seed to /repo in turn, runs the quick check of its property and records whether it was caught
cd /verif
out=seeded/RESULTS.txt
: > $out
for d in seeded/*/; do
  id=$(basename $d)
  prop=${id%%-*}
  if grep -q '"neutralised"' $d/meta.json 2>/dev/null; then echo "$id  NEUTRALISED (property holds on the seeded tree after a later repair)" >> $out; continue; fi
  patch=$d/patch.diff
  [ -f $d/patch.rebased.diff ] && patch=$d/patch.rebased.diff
  if ! git -C /repo apply --check /verif/$patch 2>/dev/null; then echo "$id  PATCH-DOES-NOT-APPLY" >> $out; continue; fi
  git -C /repo apply /verif/$patch
  ./check $prop > /tmp/seedrun.txt 2>&1; rc=$?
  git -C /repo checkout -- .; git -C /verif checkout -- lean/Usid/Generated evidence
  v=$(grep -c '^VIOLATION' /tmp/seedrun.txt)
  nf=$(grep -c 'no-failing-input-found' /tmp/seedrun.txt)
  echo "$id  exit=$rc violations=$v without-input=$nf" >> $out
done
git -C /repo status --short | grep -v '^??' >> $out
cat $out
