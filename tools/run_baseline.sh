#!/bin/bash
# runs the suite in an rsync copy of /repo (cwd = copy) and compares with the stable-pass list
set -e
D=$(mktemp -d /tmp/repo_copy_XXXX)
rsync -a --exclude .git /repo/ $D/
cd $D
/venv/bin/python -m pytest -ra -q -p no:cacheprovider --timeout=900 --continue-on-collection-errors --junitxml=$D/junit.xml > $D/out.txt 2>&1 || true
tail -3 $D/out.txt
/venv/bin/python - <<PY
import json, xml.etree.ElementTree as ET
stable=set(json.load(open('/root/.vp/BASELINE.json'))['stable_pass'])
t=ET.parse('$D/junit.xml')
passed=set()
for tc in t.iter('testcase'):
    name=tc.get('classname')+'::'+tc.get('name')
    if not any(c.tag in ('failure','error','skipped') for c in tc):
        passed.add(name)
missing=sorted(stable-passed)
print('stable tests now failing:', len(missing)); print(missing[:10])
print('passed total', len(passed))
PY
rm -rf $D
