"""usage: seed_meta.py <seed id> <caught_by text> : writes seeded/<id>/meta.json from meta.agent.json"""
import json, sys, os
sid, caught = sys.argv[1], sys.argv[2]
d = '/verif/seeded/' + sid
am = {}
if os.path.exists(d + '/meta.agent.json'):
    try:
        am = json.load(open(d + '/meta.agent.json'))
    except Exception as e:
        am = {'raw': open(d + '/meta.agent.json').read()}
    os.remove(d + '/meta.agent.json')
m = {'property': sid.split('-')[0], 'summary': (am.get('summary') or '')[:400], 'needs': (am.get('needs') or '')[:400],
     'caught_by': caught,
     'validated': 'demo fails with / passes without the patch; 294 stable tests (347 total) pass with the patch',
     'round': int(sys.argv[3]) if len(sys.argv) > 3 else 5, 'agent_meta': am}
json.dump(m, open(d + '/meta.json', 'w'), indent=1)
print('ok', sid)
