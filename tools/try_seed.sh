#!/bin/bash
# usage: try_seed.sh <worktree> <seed id>: validate the seed in its worktree, store it, then apply it to /repo,
# run the quick check of its property and undo it
WT=$1; ID=$2; PROP=${ID%%-*}
/verif/tools/validate_seed.sh $WT $ID 2>&1 | grep -v "^WARNING" | tail -4
cd /verif
if ! git -C /repo apply --check /verif/seeded/$ID/patch.diff; then echo "PATCH DOES NOT APPLY"; exit 2; fi
git -C /repo apply /verif/seeded/$ID/patch.diff
./check $PROP > /tmp/try_$ID.txt 2>&1; rc=$?
git -C /repo checkout -- .; git -C /verif checkout -- lean/Usid/Generated evidence
echo "check exit=$rc"; grep -v "^WARNING" /tmp/try_$ID.txt | grep "VIOLATION\|tier=" | cut -c1-400 | head -5
