#!/bin/bash
# usage: validate_seed.sh <worktree> <seed id> ; confirms demo fails with / passes without the patch and that the
# 294 stable tests still pass with the patch; then stores the seed under /verif/seeded/<id>/
WT=$1; ID=$2
cd $WT || exit 2
git diff -- pyUSID > /tmp/seed_$ID.diff
if [ ! -s /tmp/seed_$ID.diff ]; then echo "no change applied in worktree"; exit 2; fi
/venv/bin/python _seed/demo.py > /tmp/seed_${ID}_with.txt 2>&1; W=$?
git apply -R /tmp/seed_$ID.diff
/venv/bin/python _seed/demo.py > /tmp/seed_${ID}_without.txt 2>&1; WO=$?
git apply /tmp/seed_$ID.diff
echo "demo with patch: exit $W ; without patch: exit $WO"
/venv/bin/python -m pytest -q -p no:cacheprovider --timeout=900 --continue-on-collection-errors --junitxml=/tmp/seed_${ID}_junit.xml tests > /tmp/seed_${ID}_tests.txt 2>&1
tail -1 /tmp/seed_${ID}_tests.txt
/venv/bin/python - <<PY
import json, xml.etree.ElementTree as ET
stable=set(json.load(open('/root/.vp/BASELINE.json'))['stable_pass'])
passed=set()
for tc in ET.parse('/tmp/seed_${ID}_junit.xml').iter('testcase'):
    if not any(c.tag in ('failure','error','skipped') for c in tc):
        passed.add(tc.get('classname')+'::'+tc.get('name'))
print('stable tests failing with the patch:', sorted(stable-passed)[:5], len(stable-passed))
PY
mkdir -p /verif/seeded/$ID
cp /tmp/seed_$ID.diff /verif/seeded/$ID/patch.diff
cp _seed/demo.py /verif/seeded/$ID/demo.py
cp _seed/meta.json /verif/seeded/$ID/meta.agent.json 2>/dev/null
rm -f /tmp/seed_${ID}_junit.xml
